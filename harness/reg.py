#!/usr/bin/env python3
# usage: reg.py C15 c15 <quick shards> <thorough shards> <timeout>
import sys
id_, mod, q, t, to = sys.argv[1], sys.argv[2], int(sys.argv[3]), int(sys.argv[4]), int(sys.argv[5])
p='src/props/mod.rs'
s=open(p).read()
if 'pub mod %s;' % mod in s:
    print("already registered"); sys.exit(0)
s=s.replace("pub mod smoke;", "pub mod %s;\npub mod smoke;" % mod)
s=s.replace("        _ => None,\n    }\n}\n\npub fn spec", "        \"%s\" => Some(Plan::new(if _t { %d } else { %d }, %d)),\n        _ => None,\n    }\n}\n\npub fn spec" % (id_, t, q, to))
s=s.replace("        _ => None,\n    }\n}\n\npub fn worker", "        \"%s\" => Some(%s::spec()),\n        _ => None,\n    }\n}\n\npub fn worker" % (id_, mod))
s=s.replace("        other => {\n            let mut r = WorkerReport::default();", "        \"%s\" => %s::worker(ctx),\n        other => {\n            let mut r = WorkerReport::default();" % (id_, mod))
open(p,'w').write(s)
print("registered", id_)
