//! Minimal raw HTTP/1.1 client over TcpStream, so headers, batches and notifications are under
//! the harness's control.

use std::io::{Read, Write};
use std::net::TcpStream;
use std::time::Duration;

pub struct HttpResp {
    pub status: u16,
    pub body: String,
}

/// POST `body` to http://addr/ with the given extra header lines (each "Name: value").
pub fn post(addr: &str, headers: &[String], body: &str, timeout: Duration) -> Result<HttpResp, String> {
    let mut s = TcpStream::connect(addr).map_err(|e| format!("connect: {}", e))?;
    s.set_read_timeout(Some(timeout)).ok();
    s.set_write_timeout(Some(timeout)).ok();
    let mut req = format!("POST / HTTP/1.1\r\nHost: {}\r\nContent-Type: application/json\r\nContent-Length: {}\r\nConnection: close\r\n", addr, body.len());
    for h in headers {
        req.push_str(h);
        req.push_str("\r\n");
    }
    req.push_str("\r\n");
    s.write_all(req.as_bytes()).map_err(|e| format!("write: {}", e))?;
    s.write_all(body.as_bytes()).map_err(|e| format!("write: {}", e))?;
    let mut buf = Vec::new();
    s.read_to_end(&mut buf).map_err(|e| format!("read: {}", e))?;
    let text = String::from_utf8_lossy(&buf).to_string();
    let (head, rest) = text.split_once("\r\n\r\n").ok_or_else(|| format!("no header end in {:?}", &text[..text.len().min(200)]))?;
    let status: u16 = head.split_whitespace().nth(1).and_then(|x| x.parse().ok()).unwrap_or(0);
    let body = if head.to_ascii_lowercase().contains("transfer-encoding: chunked") { dechunk(rest) } else { rest.to_string() };
    Ok(HttpResp { status, body })
}

fn dechunk(mut s: &str) -> String {
    let mut out = String::new();
    loop {
        let Some((len_line, rest)) = s.split_once("\r\n") else { break };
        let Ok(n) = usize::from_str_radix(len_line.trim(), 16) else { break };
        if n == 0 || rest.len() < n {
            break;
        }
        out.push_str(&rest[..n]);
        s = rest[n..].trim_start_matches("\r\n");
    }
    out
}

pub fn basic(user: &str, pass: &str) -> String {
    use base64::Engine;
    format!("Authorization: Basic {}", base64::prelude::BASE64_STANDARD.encode(format!("{}:{}", user, pass)))
}

pub fn free_port() -> u16 {
    std::net::TcpListener::bind("127.0.0.1:0").unwrap().local_addr().unwrap().port()
}
