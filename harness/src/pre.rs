//! ABI-level inputs for the custom precompiles (0xfa..0xfe) and the standard ones.

use crate::asm::word_u64;
use crate::hist::abi_words;

pub const PC_TXID: u64 = 0xfa;
pub const PC_LOCKED: u64 = 0xfb;
pub const PC_LASTSAT: u64 = 0xfc;
pub const PC_TXDETAILS: u64 = 0xfd;
pub const PC_BIP322: u64 = 0xfe;

fn selector(sig: &str) -> [u8; 4] {
    let h = alloy::primitives::keccak256(sig.as_bytes());
    [h[0], h[1], h[2], h[3]]
}

fn pad32(b: &[u8]) -> Vec<u8> {
    let mut v = b.to_vec();
    while v.len() % 32 != 0 {
        v.push(0);
    }
    v
}

pub fn get_tx_details(txid: &[u8; 32]) -> Vec<u8> {
    abi_words("getTxDetails(bytes32)", &[*txid])
}

pub fn get_last_sat_location(txid: &[u8; 32], vout: u64, sat: u64) -> Vec<u8> {
    abi_words("getLastSatLocation(bytes32,uint256,uint256)", &[*txid, word_u64(vout), word_u64(sat)])
}

pub fn get_locked_pkscript(pkscript: &[u8], lock: [u8; 32]) -> Vec<u8> {
    let mut v = selector("getLockedPkscript(bytes,uint256)").to_vec();
    v.extend_from_slice(&word_u64(0x40));
    v.extend_from_slice(&lock);
    v.extend_from_slice(&word_u64(pkscript.len() as u64));
    v.extend_from_slice(&pad32(pkscript));
    v
}

pub fn bip322_verify(pkscript: &[u8], message: &[u8], signature: &[u8]) -> Vec<u8> {
    let mut v = selector("verify(bytes,bytes,bytes)").to_vec();
    let p = pad32(pkscript);
    let m = pad32(message);
    let s = pad32(signature);
    let o1 = 0x60u64;
    let o2 = o1 + 32 + p.len() as u64;
    let o3 = o2 + 32 + m.len() as u64;
    v.extend_from_slice(&word_u64(o1));
    v.extend_from_slice(&word_u64(o2));
    v.extend_from_slice(&word_u64(o3));
    v.extend_from_slice(&word_u64(pkscript.len() as u64));
    v.extend_from_slice(&p);
    v.extend_from_slice(&word_u64(message.len() as u64));
    v.extend_from_slice(&m);
    v.extend_from_slice(&word_u64(signature.len() as u64));
    v.extend_from_slice(&s);
    v
}

pub fn get_tx_id() -> Vec<u8> {
    selector("getTxId()").to_vec()
}

/// (address, input) pairs exercising every standard precompile 0x01..0x11 with a small input.
pub fn standard_inputs() -> Vec<(u64, Vec<u8>)> {
    let mut v: Vec<(u64, Vec<u8>)> = Vec::new();
    // ecrecover: hash, v=27, r=1, s=1 (invalid sig => empty output)
    let mut ec = vec![0x11u8; 32];
    ec.extend_from_slice(&word_u64(27));
    ec.extend_from_slice(&word_u64(1));
    ec.extend_from_slice(&word_u64(1));
    v.push((1, ec));
    v.push((2, b"brc20 sha256".to_vec()));
    v.push((3, b"brc20 ripemd".to_vec()));
    v.push((4, b"identity payload".to_vec()));
    // modexp: 3^5 mod 7
    let mut me = Vec::new();
    me.extend_from_slice(&word_u64(1));
    me.extend_from_slice(&word_u64(1));
    me.extend_from_slice(&word_u64(1));
    me.extend_from_slice(&[3, 5, 7]);
    v.push((5, me));
    // bn add: (1,2)+(1,2)
    let mut add = Vec::new();
    for _ in 0..2 {
        add.extend_from_slice(&word_u64(1));
        add.extend_from_slice(&word_u64(2));
    }
    v.push((6, add));
    let mut mul = Vec::new();
    mul.extend_from_slice(&word_u64(1));
    mul.extend_from_slice(&word_u64(2));
    mul.extend_from_slice(&word_u64(3));
    v.push((7, mul));
    v.push((8, vec![])); // empty pairing => 1
    // blake2f: 213 bytes, rounds=1
    let mut b2 = vec![0u8; 213];
    b2[3] = 1;
    b2[212] = 1;
    v.push((9, b2));
    v.push((10, vec![0u8; 192])); // kzg point evaluation (invalid)
    for a in 11..=17u64 {
        v.push((a, vec![0u8; 64])); // BLS12-381 family (invalid lengths => error)
    }
    v
}
