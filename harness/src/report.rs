//! Worker reports, merging, known findings, evidence files, verdict and exit code.

use std::collections::{BTreeMap, BTreeSet};
use std::path::{Path, PathBuf};

use serde::{Deserialize, Serialize};
use serde_json::{json, Value};

/// Canonical JSON text: keys sorted recursively (independent of serde_json's map flavour).
pub fn canon_string(v: &Value) -> String {
    match v {
        Value::Object(o) => {
            let mut keys: Vec<&String> = o.keys().collect();
            keys.sort();
            let parts: Vec<String> =
                keys.iter().map(|k| format!("{}:{}", Value::String((*k).clone()), canon_string(&o[*k]))).collect();
            format!("{{{}}}", parts.join(","))
        }
        Value::Array(a) => format!("[{}]", a.iter().map(canon_string).collect::<Vec<_>>().join(",")),
        other => other.to_string(),
    }
}

#[derive(Clone, Debug, Serialize, Deserialize, Default)]
pub struct Violation {
    /// Cause-specific signature (used to match known findings).
    pub sig: String,
    pub what: String,
    /// Path of the replay file (written by the worker).
    pub replay: String,
}

#[derive(Clone, Debug, Serialize, Deserialize, Default)]
pub struct WorkerReport {
    pub evaluations: u64,
    pub nontrivial: BTreeSet<String>,
    pub samples: Vec<Value>,
    pub violations: Vec<Violation>,
    pub inconclusive: u64,
    pub inconclusive_notes: Vec<String>,
    pub counters: BTreeMap<String, u64>,
    pub sets: BTreeMap<String, BTreeSet<String>>,
    pub notes: Vec<String>,
}

impl WorkerReport {
    pub fn count(&mut self, k: &str, n: u64) {
        *self.counters.entry(k.to_string()).or_insert(0) += n;
    }
    pub fn set_add(&mut self, k: &str, v: impl Into<String>) {
        self.sets.entry(k.to_string()).or_default().insert(v.into());
    }
    pub fn sample(&mut self, v: Value) {
        if self.samples.len() < 3 {
            self.samples.push(v);
        }
    }
    pub fn nontrivial(&mut self, k: impl Into<String>) {
        self.nontrivial.insert(k.into());
    }
    pub fn inconclusive(&mut self, note: impl Into<String>) {
        self.inconclusive += 1;
        if self.inconclusive_notes.len() < 20 {
            self.inconclusive_notes.push(note.into());
        }
    }
    pub fn merge(&mut self, o: WorkerReport) {
        // a worker that judged nothing and only reported that it could not: its whole slice of the
        // space went unobserved
        if o.evaluations == 0 && o.inconclusive > 0 && o.violations.is_empty() {
            *self.counters.entry("workers_that_observed_nothing".to_string()).or_insert(0) += 1;
        }
        *self.counters.entry("workers_merged".to_string()).or_insert(0) += 1;
        self.evaluations += o.evaluations;
        self.nontrivial.extend(o.nontrivial);
        for s in o.samples {
            if self.samples.len() < 6 {
                self.samples.push(s);
            }
        }
        self.violations.extend(o.violations);
        self.inconclusive += o.inconclusive;
        for n in o.inconclusive_notes {
            if self.inconclusive_notes.len() < 40 {
                self.inconclusive_notes.push(n);
            }
        }
        for (k, v) in o.counters {
            *self.counters.entry(k).or_insert(0) += v;
        }
        for (k, v) in o.sets {
            self.sets.entry(k).or_default().extend(v);
        }
        for n in o.notes {
            if self.notes.len() < 40 {
                self.notes.push(n);
            }
        }
    }
}

/// Root of the verification tree the binary belongs to (`check` exports it; default /verif).
pub fn root() -> PathBuf {
    PathBuf::from(std::env::var("VERIF_ROOT").unwrap_or_else(|_| "/verif".to_string()))
}

pub fn out_dir() -> PathBuf {
    let p = std::env::var("VERIF_OUT").map(PathBuf::from).unwrap_or_else(|_| root().join("out"));
    let _ = std::fs::create_dir_all(p.join("replays"));
    p
}

static REPLAY_N: std::sync::atomic::AtomicU64 = std::sync::atomic::AtomicU64::new(0);

/// Write a replay/witness file and return its path.
pub fn write_replay(prop: &str, seed: u64, body: &Value) -> String {
    let n = REPLAY_N.fetch_add(1, std::sync::atomic::Ordering::SeqCst);
    let p = out_dir().join("replays").join(format!("{}-{}-{}-{}.json", prop, seed, std::process::id(), n));
    let _ = std::fs::write(&p, serde_json::to_string_pretty(body).unwrap_or_default());
    p.to_string_lossy().to_string()
}

#[derive(Clone, Debug, Deserialize, Default)]
pub struct KnownFindings {
    #[serde(default)]
    pub open: Vec<KnownEntry>,
    #[serde(default)]
    pub fixed: Vec<Value>,
}

#[derive(Clone, Debug, Deserialize)]
pub struct KnownEntry {
    pub property: String,
    pub signature: String,
    pub what: String,
}

pub fn load_known() -> KnownFindings {
    let p = std::env::var("VERIF_KNOWN").map(PathBuf::from).unwrap_or_else(|_| root().join("known_findings.json"));
    std::fs::read_to_string(p).ok().and_then(|s| serde_json::from_str(&s).ok()).unwrap_or_default()
}

pub struct Spec {
    pub prop: &'static str,
    pub level: &'static str,
    pub rule: &'static str,
    pub assumptions: Vec<String>,
    pub exhaustive: bool,
    pub min_nontrivial: u64,
}

/// Writes evidence, prints verdict lines, returns the exit code (0 held, 1 violation, 2 inconclusive).
pub fn finish(spec: &Spec, tier: &str, seed: u64, wall_s: f64, rep: &WorkerReport) -> i32 {
    let known = load_known();
    let mut fresh: Vec<&Violation> = Vec::new();
    let mut known_hits: BTreeMap<String, (String, u64)> = BTreeMap::new();
    for v in &rep.violations {
        if let Some(k) = known.open.iter().find(|k| k.property == spec.prop && k.signature == v.sig) {
            let e = known_hits.entry(k.signature.clone()).or_insert((k.what.clone(), 0));
            e.1 += 1;
        } else {
            fresh.push(v);
        }
    }
    for (sig, (what, n)) in &known_hits {
        println!("KNOWN-FINDING: property={} {} [signature={} occurrences={}]", spec.prop, what, sig, n);
    }
    let mut seen = BTreeSet::new();
    for v in &fresh {
        if seen.insert(v.sig.clone()) {
            println!("VIOLATION property={} replay={}", spec.prop, v.replay);
            println!("  what: {} [signature={}]", v.what, v.sig);
        }
    }
    let distinct = rep.nontrivial.len() as u64;
    // every evidence file shows actual cases: if a worker recorded none explicitly, the identifiers
    // of the first non-trivial cases are written out
    let samples: Vec<Value> = if rep.samples.is_empty() { rep.nontrivial.iter().take(5).map(|k| json!({"case": k})).collect() } else { rep.samples.clone() };
    let mut coverage = json!({
        "evaluations": rep.evaluations,
        "distinct_nontrivial": distinct,
        "rule": spec.rule,
        "samples": samples,
        "exhaustive": spec.exhaustive,
        "inconclusive": rep.inconclusive,
        "inconclusive_notes": rep.inconclusive_notes,
        "counters": rep.counters,
        "known_findings_seen": known_hits.iter().map(|(s,(w,n))| json!({"signature": s, "what": w, "occurrences": n})).collect::<Vec<_>>(),
        "fresh_violation_signatures": seen.iter().cloned().collect::<Vec<_>>(),
        "notes": rep.notes,
    });
    for (k, v) in &rep.sets {
        coverage[format!("distinct_{}", k)] = json!(v.len());
        let sample: Vec<&String> = v.iter().take(12).collect();
        coverage[format!("some_{}", k)] = json!(sample);
    }
    let ev = json!({
        "property_id": spec.prop,
        "tier": tier,
        "seed": seed,
        "level": spec.level,
        "coverage": coverage,
        "assumptions": spec.assumptions,
        "wall_s": wall_s,
        "violations": fresh.len(),
    });
    let evdir = std::env::var("VERIF_EVIDENCE").map(PathBuf::from).unwrap_or_else(|_| root().join("evidence"));
    let _ = std::fs::create_dir_all(&evdir);
    let evpath = evdir.join(format!("{}.json", spec.prop));
    // "held on what was observed" needs observations: a run in which more cases could not be judged
    // than were judged is inconclusive as a whole
    // ... and so is a run in which a tenth or more of the workers observed nothing at all (their slice of
    // the space - a header variant, a network, a crash class - is missing from "held")
    let blind = rep.counters.get("workers_that_observed_nothing").copied().unwrap_or(0);
    let merged = rep.counters.get("workers_merged").copied().unwrap_or(0);
    let observed_enough = rep.evaluations >= 1 && distinct >= spec.min_nontrivial.max(2) && rep.inconclusive * 2 <= rep.evaluations && blind * 10 < merged.max(1);
    if !fresh.is_empty() {
        let _ = std::fs::write(&evpath, serde_json::to_string_pretty(&ev).unwrap());
        println!("RESULT property={} verdict=violated evaluations={} distinct_nontrivial={} wall_s={:.1}", spec.prop, rep.evaluations, distinct, wall_s);
        return 1;
    }
    if !observed_enough {
        // a run whose monitors observed (almost) nothing is inconclusive, not "held"
        let _ = std::fs::remove_file(&evpath);
        println!(
            "RESULT property={} verdict=inconclusive (evaluations={} distinct_nontrivial={} inconclusive={}) notes={:?}",
            spec.prop, rep.evaluations, distinct, rep.inconclusive, rep.inconclusive_notes
        );
        return 2;
    }
    let _ = std::fs::write(&evpath, serde_json::to_string_pretty(&ev).unwrap());
    println!(
        "RESULT property={} verdict=held-on-observed evaluations={} distinct_nontrivial={} inconclusive={} known_findings={} wall_s={:.1}",
        spec.prop,
        rep.evaluations,
        distinct,
        rep.inconclusive,
        known_hits.len(),
        wall_s
    );
    0
}

pub fn read_report(p: &Path) -> Option<WorkerReport> {
    std::fs::read_to_string(p).ok().and_then(|s| serde_json::from_str(&s).ok())
}
