//! In-process JSON-RPC driving of the real method table (no HTTP, no auth middleware).

use std::path::{Path, PathBuf};
use std::sync::atomic::{AtomicU64, Ordering};
use std::sync::{Arc, Mutex, OnceLock};
use std::time::Duration;

use jsonrpsee::Methods;
use serde_json::{json, Value};

/// One answer, three-valued plus harness-level failures.
#[derive(Clone, Debug, PartialEq)]
pub enum Resp {
    Ok(Value),
    Err { code: i64, message: String, data: Value },
    /// The handler panicked (the shipped binary would abort).
    Panic(String),
    /// The handler did not return within the watchdog.
    Timeout,
}

impl Resp {
    pub fn is_ok(&self) -> bool {
        matches!(self, Resp::Ok(_))
    }
    pub fn is_err(&self) -> bool {
        matches!(self, Resp::Err { .. })
    }
    pub fn ok(&self) -> Option<&Value> {
        match self {
            Resp::Ok(v) => Some(v),
            _ => None,
        }
    }
    pub fn err_msg(&self) -> Option<&str> {
        match self {
            Resp::Err { message, .. } => Some(message.as_str()),
            _ => None,
        }
    }
    pub fn to_json(&self) -> Value {
        match self {
            Resp::Ok(v) => json!({ "ok": v }),
            Resp::Err { code, message, data } => {
                json!({"err": {"code": code, "message": message, "data": data}})
            }
            Resp::Panic(m) => json!({ "panic": m }),
            Resp::Timeout => json!({"timeout": true}),
        }
    }
    pub fn short(&self) -> String {
        let s = self.to_json().to_string();
        if s.len() > 300 {
            format!("{}…", &s[..300])
        } else {
            s
        }
    }
}

#[derive(Clone, Debug, serde::Serialize, serde::Deserialize)]
pub struct PanicRecord {
    pub message: String,
    pub location: String,
    pub thread: String,
}

static PANICS: OnceLock<Mutex<Vec<PanicRecord>>> = OnceLock::new();
static PANIC_COUNT: AtomicU64 = AtomicU64::new(0);

pub fn install_panic_hook() {
    PANICS.get_or_init(|| Mutex::new(Vec::new()));
    std::panic::set_hook(Box::new(|info| {
        let message = if let Some(s) = info.payload().downcast_ref::<&str>() {
            s.to_string()
        } else if let Some(s) = info.payload().downcast_ref::<String>() {
            s.clone()
        } else {
            "<non-string panic>".to_string()
        };
        let location = info
            .location()
            .map(|l| format!("{}:{}", l.file(), l.line()))
            .unwrap_or_default();
        let thread = format!("{:?}", std::thread::current().id());
        PANIC_COUNT.fetch_add(1, Ordering::SeqCst);
        if std::env::var("VH_PANIC_PRINT").is_ok() {
            eprintln!("panic at {}: {}", location, message);
        }
        if let Some(p) = PANICS.get() {
            if let Ok(mut g) = p.lock() {
                if g.len() < 10_000 {
                    g.push(PanicRecord { message, location, thread });
                }
            }
        }
    }));
}

pub fn panic_count() -> u64 {
    PANIC_COUNT.load(Ordering::SeqCst)
}

pub fn take_panics() -> Vec<PanicRecord> {
    PANICS
        .get()
        .map(|p| std::mem::take(&mut *p.lock().unwrap_or_else(|e| e.into_inner())))
        .unwrap_or_default()
}

pub fn panics_since(n: usize) -> Vec<PanicRecord> {
    PANICS
        .get()
        .map(|p| {
            let g = p.lock().unwrap_or_else(|e| e.into_inner());
            g.iter().skip(n).cloned().collect()
        })
        .unwrap_or_default()
}

pub fn panics_len() -> usize {
    PANICS.get().map(|p| p.lock().unwrap_or_else(|e| e.into_inner()).len()).unwrap_or(0)
}

static RT: OnceLock<tokio::runtime::Runtime> = OnceLock::new();

pub fn rt() -> &'static tokio::runtime::Runtime {
    RT.get_or_init(|| {
        tokio::runtime::Builder::new_multi_thread()
            .worker_threads(4)
            .enable_all()
            .build()
            .expect("tokio runtime")
    })
}

/// One opened database directory with its engine and method table.
pub struct Inst {
    pub dir: PathBuf,
    methods: Option<Arc<Methods>>,
    /// When set, calls go over HTTP to a server started with `start()` (addr, extra headers).
    pub http: Option<(String, Vec<String>)>,
    pub calls: u64,
    pub timeout: Duration,
}

static NEXT_ID: AtomicU64 = AtomicU64::new(1);

impl Inst {
    pub fn open(dir: &Path) -> Result<Inst, String> {
        std::fs::create_dir_all(dir).map_err(|e| e.to_string())?;
        let methods = brc20_prog::verif::methods(dir).map_err(|e| e.to_string())?;
        Ok(Inst {
            dir: dir.to_path_buf(),
            methods: Some(Arc::new(methods)),
            http: None,
            calls: 0,
            timeout: Duration::from_secs(120),
        })
    }

    /// An instance reached over HTTP (the server owns the database).
    pub fn over_http(dir: &Path, addr: &str, headers: Vec<String>) -> Inst {
        Inst { dir: dir.to_path_buf(), methods: None, http: Some((addr.to_string(), headers)), calls: 0, timeout: Duration::from_secs(120) }
    }

    pub fn methods(&self) -> Arc<Methods> {
        self.methods.as_ref().expect("instance is open").clone()
    }

    pub fn method_names(&self) -> Vec<String> {
        let mut v: Vec<String> =
            self.methods().method_names().map(|s| s.to_string()).collect();
        v.sort();
        v
    }

    /// Close all RocksDB handles.
    pub fn close(&mut self) {
        self.methods = None;
    }

    pub fn is_open(&self) -> bool {
        self.methods.is_some()
    }

    pub fn reopen(&mut self) -> Result<(), String> {
        self.close();
        let methods = brc20_prog::verif::methods(&self.dir).map_err(|e| e.to_string())?;
        self.methods = Some(Arc::new(methods));
        Ok(())
    }

    pub fn call(&mut self, method: &str, params: Value) -> Resp {
        self.calls += 1;
        if let Some((addr, headers)) = &self.http {
            let id = NEXT_ID.fetch_add(1, Ordering::Relaxed);
            let req = json!({"jsonrpc":"2.0","id":id,"method":method,"params":params}).to_string();
            return match crate::http::post(addr, headers, &req, self.timeout) {
                Ok(r) => parse_response(&r.body),
                Err(e) => Resp::Err { code: -32000, message: format!("http: {}", e), data: Value::Null },
            };
        }
        // bulk operations (tens of thousands of mined blocks written out at once) get five times the
        // default limit; checks that set their own, shorter limit to judge hangs keep it
        let t = if self.timeout == Duration::from_secs(120) && matches!(method, "brc20_commitToDatabase" | "brc20_mine" | "brc20_reorg" | "brc20_initialise" | "brc20_clearCaches") { self.timeout * 5 } else { self.timeout };
        call_methods(&self.methods(), method, params, t)
    }

    /// Raw request text (for malformed framing).
    pub fn call_raw(&mut self, request: String) -> Resp {
        self.calls += 1;
        raw_methods(&self.methods(), request, self.timeout)
    }
}

pub fn call_methods(methods: &Arc<Methods>, method: &str, params: Value, timeout: Duration) -> Resp {
    let id = NEXT_ID.fetch_add(1, Ordering::Relaxed);
    let req = json!({"jsonrpc":"2.0","id":id,"method":method,"params":params}).to_string();
    raw_methods(methods, req, timeout)
}

pub fn raw_methods(methods: &Arc<Methods>, request: String, timeout: Duration) -> Resp {
    let m = methods.clone();
    let before = panics_len();
    let handle = rt().spawn(async move { m.raw_json_request(&request, 1).await.map(|(r, _)| r) });
    let joined = rt().block_on(async move { tokio::time::timeout(timeout, handle).await });
    match joined {
        Err(_) => Resp::Timeout,
        Ok(Err(join_err)) => {
            let msg = panics_since(before)
                .first()
                .map(|p| format!("{} @ {}", p.message, p.location))
                .unwrap_or_else(|| join_err.to_string());
            Resp::Panic(msg)
        }
        Ok(Ok(Err(e))) => Resp::Err { code: -32700, message: format!("framing: {}", e), data: Value::Null },
        Ok(Ok(Ok(raw))) => parse_response(raw.get()),
    }
}

thread_local! {
    static LOCAL_RT: tokio::runtime::Runtime = tokio::runtime::Builder::new_current_thread().enable_all().build().expect("local runtime");
}

/// Run the handler on the calling thread (no task hop, no watchdog): lock events are then
/// attributed to the client thread and a blocked handler blocks this thread.
pub fn call_direct(methods: &Arc<Methods>, method: &str, params: Value) -> Resp {
    let id = NEXT_ID.fetch_add(1, Ordering::Relaxed);
    let req = json!({"jsonrpc":"2.0","id":id,"method":method,"params":params}).to_string();
    let before = panics_len();
    let r = std::panic::catch_unwind(std::panic::AssertUnwindSafe(|| LOCAL_RT.with(|rt| rt.block_on(async { methods.raw_json_request(&req, 1).await.map(|(r, _)| r) }))));
    match r {
        Err(_) => Resp::Panic(panics_since(before).first().map(|p| format!("{} @ {}", p.message, p.location)).unwrap_or_else(|| "panic".into())),
        Ok(Err(e)) => Resp::Err { code: -32700, message: format!("framing: {}", e), data: Value::Null },
        Ok(Ok(raw)) => parse_response(raw.get()),
    }
}

pub fn parse_response(text: &str) -> Resp {
    let v: Value = match serde_json::from_str(text) {
        Ok(v) => v,
        Err(e) => {
            return Resp::Err { code: -32700, message: format!("unparsable response: {}", e), data: Value::Null }
        }
    };
    if let Some(e) = v.get("error") {
        return Resp::Err {
            code: e.get("code").and_then(|c| c.as_i64()).unwrap_or(0),
            message: e.get("message").and_then(|m| m.as_str()).unwrap_or("").to_string(),
            data: e.get("data").cloned().unwrap_or(Value::Null),
        };
    }
    Resp::Ok(v.get("result").cloned().unwrap_or(Value::Null))
}

// ---------------------------------------------------------------------------------------------
// Configuration helper
// ---------------------------------------------------------------------------------------------

#[derive(Clone, Debug)]
pub struct Net {
    pub network: &'static str,
    pub traces: bool,
}

pub const CHAIN_ID_MAIN: u64 = 0x4252433230;
pub const CHAIN_ID_TEST: u64 = 0x425243323073;

/// The chain id is configuration (CHAIN_ID), the network name only decides its default: a worker may
/// configure another one for its whole process (0 = the default for the network).
pub static CHAIN_ID_OVERRIDE: AtomicU64 = AtomicU64::new(0);

pub fn chain_id_for(network: &str) -> u64 {
    let o = CHAIN_ID_OVERRIDE.load(Ordering::Relaxed);
    if o != 0 {
        return o;
    }
    if network == "bitcoin" || network == "mainnet" {
        CHAIN_ID_MAIN
    } else {
        CHAIN_ID_TEST
    }
}

/// eth_call gas limit used by the harness configuration (VH_CALL_GAS overrides).
pub fn call_gas_limit() -> u64 {
    std::env::var("VH_CALL_GAS").ok().and_then(|s| s.parse().ok()).unwrap_or(100_000_000)
}

pub fn make_config(network: &str, traces: bool, btc_url: &str, db_path: &str) -> brc20_prog::Brc20ProgConfig {
    brc20_prog::Brc20ProgConfig::new(
        "127.0.0.1:0".to_string(),
        false,
        None,
        None,
        traces,
        call_gas_limit(),
        btc_url.to_string(),
        "user".to_string(),
        "pass".to_string(),
        network.to_string(),
        chain_id_for(network),
        true,
        db_path.to_string(),
        10 * 1024 * 1024,
        100 * 1024 * 1024,
        50,
    )
}

/// Sets the process-global CONFIG. One configuration per worker process.
pub fn set_global_config(network: &str, traces: bool, btc_url: &str) {
    brc20_prog::verif::set_config(make_config(network, traces, btc_url, "unused"));
}

// ---------------------------------------------------------------------------------------------
// Scratch directories
// ---------------------------------------------------------------------------------------------

static WORK_COUNTER: AtomicU64 = AtomicU64::new(0);

pub fn work_root() -> PathBuf {
    std::env::var("VERIF_WORK").map(PathBuf::from).unwrap_or_else(|_| crate::report::root().join(".work"))
}

/// A fresh directory under /verif/.work/<tag>-<pid>/<n>.
pub fn fresh_dir(tag: &str) -> PathBuf {
    let n = WORK_COUNTER.fetch_add(1, Ordering::SeqCst);
    let p = work_root().join(format!("{}-{}", tag, std::process::id())).join(format!("{}", n));
    let _ = std::fs::remove_dir_all(&p);
    std::fs::create_dir_all(&p).expect("create work dir");
    p
}

pub fn process_work_dir(tag: &str) -> PathBuf {
    work_root().join(format!("{}-{}", tag, std::process::id()))
}

pub fn remove_dir(p: &Path) {
    let _ = std::fs::remove_dir_all(p);
}

pub fn copy_dir(src: &Path, dst: &Path) -> std::io::Result<()> {
    std::fs::create_dir_all(dst)?;
    for entry in std::fs::read_dir(src)? {
        let entry = entry?;
        let ty = entry.file_type()?;
        let to = dst.join(entry.file_name());
        if ty.is_dir() {
            copy_dir(&entry.path(), &to)?;
        } else if ty.is_file() {
            if entry.file_name() == "LOCK" {
                std::fs::write(&to, b"")?;
            } else {
                std::fs::copy(entry.path(), &to)?;
            }
        }
    }
    Ok(())
}
