//! The observation function Obs(instance, U): every read method over the universe of identifiers
//! the history ever mentioned, as canonical JSON.

use std::collections::{BTreeMap, BTreeSet};

use serde_json::{json, Value};
use sha2::{Digest, Sha256};

use crate::hist::{self, Op};
use crate::rpc::{Inst, Resp};

#[derive(Clone, Debug, Default)]
pub struct Universe {
    pub addrs: BTreeSet<String>,
    pub hashes: BTreeSet<String>,
    pub iids: BTreeSet<String>,
    pub pk_tickers: BTreeSet<(String, String)>,
    pub slots: BTreeSet<String>,
    pub max_height: u64,
    /// heights below this one are not observed (chains initialised at a large height)
    pub min_height: u64,
    /// extra read-only calls (to, data) observed through eth_call at block boundaries
    pub calls: BTreeSet<(String, String)>,
}

fn is_hex_of(s: &str, n: usize) -> bool {
    s.len() == 2 + n && s.starts_with("0x") && s[2..].bytes().all(|b| b.is_ascii_hexdigit())
}

impl Universe {
    pub fn new() -> Universe {
        let mut u = Universe::default();
        u.addrs.insert(hist::CONTROLLER.to_string());
        u.addrs.insert(hist::INDEXER.to_string());
        u.addrs.insert("0x000000000000000000000000000000000000dead".to_string());
        for s in 0..8u64 {
            u.slots.insert(format!("0x{:x}", s));
        }
        u.slots.insert("0xc0de".into());
        u
    }

    pub fn absorb_value(&mut self, v: &Value) {
        match v {
            Value::String(s) => {
                if is_hex_of(s, 40) {
                    self.addrs.insert(s.to_lowercase());
                } else if is_hex_of(s, 64) {
                    self.hashes.insert(s.to_lowercase());
                }
            }
            Value::Array(a) => a.iter().for_each(|x| self.absorb_value(x)),
            Value::Object(o) => o.values().for_each(|x| self.absorb_value(x)),
            _ => {}
        }
    }

    pub fn absorb_op(&mut self, op: &Op) {
        match op {
            Op::Deploy { pk, iid, .. } => {
                self.addrs.insert(hist::addr_hex(&hist::pk_address(pk)));
                self.iids.insert(iid.clone());
            }
            Op::Call { pk, iid, target, .. } => {
                self.addrs.insert(hist::addr_hex(&hist::pk_address(pk)));
                self.iids.insert(iid.clone());
                match target {
                    hist::Target::Addr(a) => {
                        self.addrs.insert(a.to_lowercase());
                    }
                    hist::Target::Iid(i) => {
                        self.iids.insert(i.clone());
                    }
                    _ => {}
                }
            }
            Op::Transact { iid, .. } => {
                self.iids.insert(iid.clone());
            }
            Op::Deposit { pk, ticker, iid, .. } | Op::Withdraw { pk, ticker, iid, .. } => {
                self.addrs.insert(hist::addr_hex(&hist::pk_address(pk)));
                self.iids.insert(iid.clone());
                self.pk_tickers.insert((pk.clone(), ticker.clone()));
            }
            Op::Finalise { hash, .. } | Op::Init { hash, .. } => {
                if is_hex_of(hash, 64) {
                    self.hashes.insert(hash.to_lowercase());
                }
            }
            _ => {}
        }
        if let Some(ctx) = op.ctx() {
            if is_hex_of(&ctx.hash, 64) {
                self.hashes.insert(ctx.hash.to_lowercase());
            }
        }
    }

    pub fn absorb_log(&mut self, log: &[(Op, Resp)]) {
        for (op, resp) in log {
            self.absorb_op(op);
            if let Resp::Ok(v) = resp {
                self.absorb_value(v);
            }
        }
    }

    pub fn add_slot_u64(&mut self, s: u64) {
        self.slots.insert(format!("0x{:x}", s));
    }

    pub fn size(&self) -> usize {
        self.addrs.len() + self.hashes.len() + self.iids.len() + self.pk_tickers.len()
    }
}

/// Canonicalise: object keys sorted (serde_json's BTreeMap default does that), mineTimestamp zeroed.
pub fn canon(v: &mut Value) {
    match v {
        Value::Object(o) => {
            if let Some(m) = o.get_mut("mineTimestamp") {
                *m = json!("0x0");
            }
            for (_, x) in o.iter_mut() {
                canon(x);
            }
        }
        Value::Array(a) => a.iter_mut().for_each(canon),
        _ => {}
    }
}

pub fn canon_resp(r: &Resp) -> Value {
    let mut v = r.to_json();
    canon(&mut v);
    v
}

#[derive(Clone, Debug, Default)]
pub struct Obs {
    pub entries: BTreeMap<String, Value>,
}

#[derive(Clone, Copy, Debug, PartialEq, Eq)]
pub enum ObsMode {
    /// Block boundary: executing queries (eth_call, brc20_balance) allowed.
    Boundary,
    /// Mid-block: only non-executing queries.
    MidBlock,
}

impl Obs {
    pub fn digest(&self) -> String {
        let mut h = Sha256::new();
        for (k, v) in &self.entries {
            h.update(k.as_bytes());
            h.update(b"\n");
            h.update(v.to_string().as_bytes());
            h.update(b"\n");
        }
        hex::encode(h.finalize())
    }

    /// Differences as (query, self, other).
    pub fn diff(&self, other: &Obs) -> Vec<(String, Value, Value)> {
        let mut out = Vec::new();
        let keys: BTreeSet<&String> = self.entries.keys().chain(other.entries.keys()).collect();
        for k in keys {
            let a = self.entries.get(k).cloned().unwrap_or(Value::Null);
            let b = other.entries.get(k).cloned().unwrap_or(Value::Null);
            if a != b {
                out.push((k.clone(), a, b));
            }
        }
        out
    }

    pub fn len(&self) -> usize {
        self.entries.len()
    }
}

pub fn observe(inst: &mut Inst, u: &Universe, mode: ObsMode) -> Obs {
    observe_opts(inst, u, mode, true)
}

/// `with_traces`: include debug_* block trace strings (deny-listed but in-process callable).
pub fn observe_opts(inst: &mut Inst, u: &Universe, mode: ObsMode, with_traces: bool) -> Obs {
    let mut o = Obs::default();
    let mut q = |inst: &mut Inst, m: &str, p: Value| {
        let r = inst.call(m, p.clone());
        o.entries.insert(format!("{} {}", m, p), canon_resp(&r));
    };
    q(inst, "eth_blockNumber", json!([]));
    q(inst, "txpool_content", json!([]));
    // the block tags: what they resolve to must not depend on anything but the chain
    for tag in ["latest", "safe", "finalized", "pending", "earliest"] {
        q(inst, "eth_getBlockByNumber", json!([tag, false]));
        q(inst, "eth_getBlockTransactionCountByNumber", json!([tag]));
        q(inst, "eth_getLogs", json!([{"fromBlock": tag, "toBlock": tag}]));
        q(inst, "debug_getRawHeader", json!([tag]));
    }
    let mut big_blocks: Vec<(u64, u64)> = Vec::new();
    for h in u.min_height..=(u.max_height + 2) {
        let hx = format!("0x{:x}", h);
        q(inst, "eth_getBlockByNumber", json!([hx, false]));
        q(inst, "eth_getBlockByNumber", json!([hx, true]));
        {
            let r = inst.call("eth_getBlockTransactionCountByNumber", json!([hx]));
            if let Some(c) = r.ok().and_then(|v| v.as_str()).and_then(|s| u64::from_str_radix(s.trim_start_matches("0x"), 16).ok()) {
                if c > 3 {
                    big_blocks.push((h, c));
                }
            }
        }
        q(inst, "eth_getBlockTransactionCountByNumber", json!([hx]));
        q(inst, "eth_getLogs", json!([{"fromBlock": hx, "toBlock": hx}]));
        if h % 3 == 0 {
            q(inst, "eth_getLogs", json!([{"fromBlock": hx, "toBlock": format!("0x{:x}", h + 5)}]));
        }
        q(inst, "debug_getRawHeader", json!([hx]));
        q(inst, "debug_getRawBlock", json!([hx]));
        q(inst, "debug_getRawReceipts", json!([hx]));
        if with_traces {
            q(inst, "debug_getBlockTraceString", json!([hx]));
            q(inst, "debug_getBlockTraceHash", json!([hx]));
        }
        for i in 0..3u64 {
            q(inst, "eth_getTransactionByBlockNumberAndIndex", json!([h, i]));
        }
    }
    // blocks with many transactions: the indices around the end and around one-byte boundaries
    for (h, c) in big_blocks {
        for i in [c - 1, c, 254, 255, 256, 257, 1023, 1024, 1025] {
            if i >= 3 && i <= c {
                q(inst, "eth_getTransactionByBlockNumberAndIndex", json!([h, i]));
            }
        }
    }
    // histories with blocks of a thousand transactions mention thousands of hashes: beyond 600 a
    // deterministic stride is observed (the block objects above still list every transaction)
    let stride = (u.hashes.len() / 600).max(1);
    for (i, hash) in u.hashes.iter().enumerate() {
        if i % stride != 0 {
            continue;
        }
        q(inst, "eth_getBlockByHash", json!([hash, false]));
        q(inst, "eth_getBlockTransactionCountByHash", json!([hash]));
        q(inst, "eth_getTransactionByBlockHashAndIndex", json!([hash, 0]));
        q(inst, "eth_getTransactionByHash", json!([hash]));
        q(inst, "eth_getTransactionReceipt", json!([hash]));
        q(inst, "debug_traceTransaction", json!([hash]));
        q(inst, "brc20_getInscriptionIdByTxHash", json!([hash]));
    }
    let istride = (u.iids.len() / 600).max(1);
    for (i, iid) in u.iids.iter().enumerate() {
        if i % istride == 0 {
            q(inst, "brc20_getTxReceiptByInscriptionId", json!([iid]));
        }
    }
    for a in &u.addrs {
        q(inst, "eth_getTransactionCount", json!([a, "latest"]));
        q(inst, "eth_getCode", json!([a]));
        q(inst, "brc20_getInscriptionIdByContractAddress", json!([a]));
        q(inst, "txpool_contentFrom", json!([a]));
    }
    // storage: only for accounts that have code (or are the controller)
    let mut coded: Vec<String> = Vec::new();
    for a in &u.addrs {
        let key = format!("eth_getCode {}", json!([a]));
        if let Some(v) = o.entries.get(&key) {
            if v.get("ok").and_then(|x| x.as_str()).map(|s| s.len() > 2).unwrap_or(false) {
                coded.push(a.clone());
            }
        }
    }
    let mut q = |inst: &mut Inst, m: &str, p: Value| {
        let r = inst.call(m, p.clone());
        o.entries.insert(format!("{} {}", m, p), canon_resp(&r));
    };
    for a in &coded {
        for s in &u.slots {
            q(inst, "eth_getStorageAt", json!([a, s]));
        }
    }
    if mode == ObsMode::Boundary {
        for (pk, t) in &u.pk_tickers {
            q(inst, "brc20_balance", json!({"pkscript": pk, "ticker": t}));
        }
        for (to, data) in &u.calls {
            q(inst, "eth_call", json!([{"to": to, "data": data}]));
        }
        // pure read-back through eth_call: Tool.sload(slot 1) on coded accounts
        for a in coded.iter().take(6) {
            let mut data = vec![crate::asm::OP_SLOAD];
            data.extend_from_slice(&crate::asm::word_u64(1));
            q(inst, "eth_call", json!([{"to": a, "data": hist::hx(&data)}]));
        }
    }
    o
}

/// Short human-readable summary of differences for replay files.
pub fn diff_summary(d: &[(String, Value, Value)], max: usize) -> Value {
    Value::Array(
        d.iter()
            .take(max)
            .map(|(k, a, b)| {
                let sa = a.to_string();
                let sb = b.to_string();
                json!({"query": k, "a": if sa.len() > 600 { format!("{}…", &sa[..600]) } else { sa },
                       "b": if sb.len() > 600 { format!("{}…", &sb[..600]) } else { sb }})
            })
            .collect(),
    )
}
