//! A tiny EVM assembler (no Solidity compiler is available offline) and the contract library.
//!
//! Syntax: whitespace-separated tokens, `;` comments to end of line, `PUSH <hex|dec>` (auto-sized),
//! `PUSHn <hex>`, `:label` (emits JUMPDEST), `@label` (PUSH2 of the label offset).

use std::collections::HashMap;
use std::sync::OnceLock;

fn opcode(m: &str) -> Option<u8> {
    Some(match m {
        "STOP" => 0x00, "ADD" => 0x01, "MUL" => 0x02, "SUB" => 0x03, "DIV" => 0x04, "MOD" => 0x06,
        "EXP" => 0x0a, "LT" => 0x10, "GT" => 0x11, "EQ" => 0x14, "ISZERO" => 0x15, "AND" => 0x16,
        "OR" => 0x17, "XOR" => 0x18, "NOT" => 0x19, "BYTE" => 0x1a, "SHL" => 0x1b, "SHR" => 0x1c,
        "KECCAK256" => 0x20, "ADDRESS" => 0x30, "BALANCE" => 0x31, "ORIGIN" => 0x32, "CALLER" => 0x33,
        "CALLVALUE" => 0x34, "CALLDATALOAD" => 0x35, "CALLDATASIZE" => 0x36, "CALLDATACOPY" => 0x37,
        "CODESIZE" => 0x38, "CODECOPY" => 0x39, "GASPRICE" => 0x3a, "EXTCODESIZE" => 0x3b,
        "RETURNDATASIZE" => 0x3d, "RETURNDATACOPY" => 0x3e, "EXTCODEHASH" => 0x3f, "BLOCKHASH" => 0x40,
        "COINBASE" => 0x41, "TIMESTAMP" => 0x42, "NUMBER" => 0x43, "PREVRANDAO" => 0x44,
        "GASLIMIT" => 0x45, "CHAINID" => 0x46, "SELFBALANCE" => 0x47, "BASEFEE" => 0x48,
        "BLOBHASH" => 0x49, "BLOBBASEFEE" => 0x4a,
        "POP" => 0x50, "MLOAD" => 0x51, "MSTORE" => 0x52, "MSTORE8" => 0x53, "SLOAD" => 0x54,
        "SSTORE" => 0x55, "JUMP" => 0x56, "JUMPI" => 0x57, "PC" => 0x58, "MSIZE" => 0x59, "GAS" => 0x5a,
        "JUMPDEST" => 0x5b, "TLOAD" => 0x5c, "TSTORE" => 0x5d, "MCOPY" => 0x5e, "PUSH0" => 0x5f,
        "LOG0" => 0xa0, "LOG1" => 0xa1, "LOG2" => 0xa2, "LOG3" => 0xa3, "LOG4" => 0xa4,
        "CREATE" => 0xf0, "CALL" => 0xf1, "CALLCODE" => 0xf2, "RETURN" => 0xf3, "DELEGATECALL" => 0xf4,
        "CREATE2" => 0xf5, "STATICCALL" => 0xfa, "REVERT" => 0xfd, "INVALID" => 0xfe, "SELFDESTRUCT" => 0xff,
        _ => {
            if let Some(n) = m.strip_prefix("DUP") {
                let n: u8 = n.parse().ok()?;
                if (1..=16).contains(&n) { return Some(0x80 + n - 1); }
            }
            if let Some(n) = m.strip_prefix("SWAP") {
                let n: u8 = n.parse().ok()?;
                if (1..=16).contains(&n) { return Some(0x90 + n - 1); }
            }
            return None;
        }
    })
}

fn parse_num(t: &str) -> Vec<u8> {
    if let Some(h) = t.strip_prefix("0x") {
        let h = if h.len() % 2 == 1 { format!("0{}", h) } else { h.to_string() };
        hex::decode(h).expect("hex literal")
    } else {
        let v: u128 = t.parse().unwrap_or_else(|_| panic!("bad literal {}", t));
        let b = v.to_be_bytes();
        let first = b.iter().position(|x| *x != 0).unwrap_or(15);
        b[first..].to_vec()
    }
}

enum Item {
    Byte(u8),
    Bytes(Vec<u8>),
    LabelRef(String),
    LabelDef(String),
}

pub fn assemble(src: &str) -> Vec<u8> {
    let mut items = Vec::new();
    let mut toks: Vec<String> = Vec::new();
    for line in src.lines() {
        let line = line.split(';').next().unwrap_or("");
        for t in line.split_whitespace() {
            toks.push(t.to_string());
        }
    }
    let mut i = 0;
    while i < toks.len() {
        let t = &toks[i];
        if let Some(l) = t.strip_prefix(':') {
            items.push(Item::LabelDef(l.to_string()));
        } else if let Some(l) = t.strip_prefix('@') {
            items.push(Item::LabelRef(l.to_string()));
        } else if t == "PUSH" {
            i += 1;
            let mut n = parse_num(&toks[i]);
            if n.is_empty() { n = vec![0]; }
            assert!(n.len() <= 32);
            items.push(Item::Byte(0x60 + n.len() as u8 - 1));
            items.push(Item::Bytes(n));
        } else if t.starts_with("PUSH") && t != "PUSH0" {
            let n: usize = t[4..].parse().expect("PUSHn");
            i += 1;
            let lit = parse_num(&toks[i]);
            assert!(lit.len() <= n, "literal too wide for {}", t);
            let mut v = vec![0u8; n - lit.len()];
            v.extend_from_slice(&lit);
            items.push(Item::Byte(0x60 + n as u8 - 1));
            items.push(Item::Bytes(v));
        } else if t == "RAW" {
            i += 1;
            items.push(Item::Bytes(parse_num(&toks[i])));
        } else {
            items.push(Item::Byte(opcode(t).unwrap_or_else(|| panic!("unknown mnemonic {}", t))));
        }
        i += 1;
    }
    // pass 1: label offsets
    let mut labels = HashMap::new();
    let mut pc = 0usize;
    for it in &items {
        match it {
            Item::Byte(_) => pc += 1,
            Item::Bytes(b) => pc += b.len(),
            Item::LabelRef(_) => pc += 3,
            Item::LabelDef(l) => {
                labels.insert(l.clone(), pc);
                pc += 1;
            }
        }
    }
    let mut out = Vec::with_capacity(pc);
    for it in &items {
        match it {
            Item::Byte(b) => out.push(*b),
            Item::Bytes(b) => out.extend_from_slice(b),
            Item::LabelRef(l) => {
                let off = *labels.get(l).unwrap_or_else(|| panic!("undefined label {}", l));
                out.push(0x61);
                out.push((off >> 8) as u8);
                out.push(off as u8);
            }
            Item::LabelDef(_) => out.push(0x5b),
        }
    }
    out
}

/// Init code that (optionally runs `ctor` first and then) returns `runtime`.
pub fn initcode_with_ctor(ctor_src: &str, runtime: &[u8]) -> Vec<u8> {
    let ctor = assemble(ctor_src);
    let off = ctor.len() + 13;
    let mut v = ctor;
    let len = runtime.len();
    assert!(len < 65536 && off < 65536);
    v.extend_from_slice(&[0x61, (len >> 8) as u8, len as u8]); // PUSH2 len
    v.push(0x80); // DUP1
    v.extend_from_slice(&[0x61, (off >> 8) as u8, off as u8]); // PUSH2 off
    v.extend_from_slice(&[0x60, 0x00]); // PUSH1 0
    v.push(0x39); // CODECOPY
    v.extend_from_slice(&[0x60, 0x00]); // PUSH1 0
    v.push(0xf3); // RETURN
    v.extend_from_slice(runtime);
    v
}

pub fn initcode(runtime: &[u8]) -> Vec<u8> {
    initcode_with_ctor("", runtime)
}

const TOOL_SRC: &str = r#"
    PUSH 0 CALLDATALOAD PUSH 248 SHR
    DUP1 ISZERO @op_stop JUMPI
    DUP1 PUSH 1 EQ @op_sstore JUMPI
    DUP1 PUSH 2 EQ @op_sload JUMPI
    DUP1 PUSH 3 EQ @op_log JUMPI
    DUP1 PUSH 4 EQ @op_logs JUMPI
    DUP1 PUSH 5 EQ @op_probe JUMPI
    DUP1 PUSH 6 EQ @op_create JUMPI
    DUP1 PUSH 7 EQ @op_create2 JUMPI
    DUP1 PUSH 8 EQ @op_burn JUMPI
    DUP1 PUSH 9 EQ @op_revert JUMPI
    DUP1 PUSH 10 EQ @op_invalid JUMPI
    DUP1 PUSH 11 EQ @op_selfdestruct JUMPI
    DUP1 PUSH 12 EQ @op_call JUMPI
    DUP1 PUSH 13 EQ @op_static JUMPI
    DUP1 PUSH 14 EQ @op_inc JUMPI
    DUP1 PUSH 16 EQ @op_cond JUMPI
    DUP1 PUSH 17 EQ @op_mstore JUMPI
    PUSH 0 PUSH 0 REVERT

:op_stop STOP

:op_sstore POP
    PUSH 1 CALLDATALOAD DUP1 SLOAD PUSH 0 MSTORE
    PUSH 33 CALLDATALOAD SWAP1 SSTORE
    PUSH 32 PUSH 0 RETURN

:op_sload POP
    PUSH 1 CALLDATALOAD SLOAD PUSH 0 MSTORE PUSH 32 PUSH 0 RETURN

:op_log POP
    PUSH 161 CALLDATALOAD PUSH 0 MSTORE
    PUSH 1 CALLDATALOAD
    DUP1 ISZERO @log0 JUMPI
    DUP1 PUSH 1 EQ @log1 JUMPI
    DUP1 PUSH 2 EQ @log2 JUMPI
    DUP1 PUSH 3 EQ @log3 JUMPI
    PUSH 129 CALLDATALOAD PUSH 97 CALLDATALOAD PUSH 65 CALLDATALOAD PUSH 33 CALLDATALOAD PUSH 32 PUSH 0 LOG4 STOP
:log3 PUSH 97 CALLDATALOAD PUSH 65 CALLDATALOAD PUSH 33 CALLDATALOAD PUSH 32 PUSH 0 LOG3 STOP
:log2 PUSH 65 CALLDATALOAD PUSH 33 CALLDATALOAD PUSH 32 PUSH 0 LOG2 STOP
:log1 PUSH 33 CALLDATALOAD PUSH 32 PUSH 0 LOG1 STOP
:log0 PUSH 32 PUSH 0 LOG0 STOP

:op_logs POP
    PUSH 0
:logs_loop
    DUP1 PUSH 1 CALLDATALOAD GT ISZERO @logs_end JUMPI
    DUP1 PUSH 0 MSTORE
    DUP1 PUSH 65 CALLDATALOAD ADD
    PUSH 33 CALLDATALOAD
    PUSH 32 PUSH 0 LOG2
    PUSH 1 ADD
    @logs_loop JUMP
:logs_end STOP

:op_probe POP
    PUSH 1 CALLDATALOAD
    NUMBER DUP2 SSTORE
    TIMESTAMP DUP2 PUSH 1 ADD SSTORE
    PREVRANDAO DUP2 PUSH 2 ADD SSTORE
    CHAINID DUP2 PUSH 3 ADD SSTORE
    BASEFEE DUP2 PUSH 4 ADD SSTORE
    GASPRICE DUP2 PUSH 5 ADD SSTORE
    COINBASE DUP2 PUSH 6 ADD SSTORE
    ORIGIN DUP2 PUSH 7 ADD SSTORE
    CALLER DUP2 PUSH 8 ADD SSTORE
    PUSH 33 CALLDATALOAD NUMBER SUB BLOCKHASH DUP2 PUSH 9 ADD SSTORE
    PUSH 32 PUSH 0 PUSH 0 PUSH 0 PUSH 0xfa GAS STATICCALL
    DUP2 PUSH 10 ADD SSTORE
    RETURNDATASIZE DUP2 PUSH 11 ADD SSTORE
    PUSH 0 MLOAD DUP2 PUSH 12 ADD SSTORE
    PUSH 65 CALLDATALOAD BLOCKHASH DUP2 PUSH 13 ADD SSTORE
    PUSH 1 DUP2 PUSH 14 ADD SSTORE
    STOP

:op_create POP
    PUSH 1 CALLDATASIZE SUB
    DUP1 PUSH 1 PUSH 0 CALLDATACOPY
    PUSH 0 PUSH 0 CREATE
    DUP1 PUSH 0 MSTORE PUSH 0xc0de SSTORE
    PUSH 32 PUSH 0 RETURN

:op_create2 POP
    PUSH 33 CALLDATASIZE SUB
    DUP1 PUSH 33 PUSH 0 CALLDATACOPY
    PUSH 1 CALLDATALOAD SWAP1
    PUSH 0 PUSH 0 CREATE2
    DUP1 PUSH 0 MSTORE PUSH 0xc0de SSTORE
    PUSH 32 PUSH 0 RETURN

:op_burn POP
    PUSH 1 CALLDATALOAD
:burn_loop
    DUP1 ISZERO @burn_end JUMPI
    PUSH 1 SWAP1 SUB
    @burn_loop JUMP
:burn_end
    PUSH 1 PUSH 0 MSTORE PUSH 32 PUSH 0 RETURN

:op_revert POP
    PUSH 1 CALLDATALOAD PUSH 0 MSTORE PUSH 32 PUSH 0 REVERT

:op_invalid INVALID

:op_selfdestruct POP
    PUSH 1 CALLDATALOAD SELFDESTRUCT

:op_call POP
    PUSH 33 CALLDATASIZE SUB
    DUP1 PUSH 33 PUSH 0 CALLDATACOPY
    PUSH 0 PUSH 0 DUP3 PUSH 0 PUSH 0
    PUSH 1 CALLDATALOAD GAS CALL
    PUSH 0 MSTORE POP
    RETURNDATASIZE PUSH 0 PUSH 32 RETURNDATACOPY
    RETURNDATASIZE PUSH 32 ADD PUSH 0 RETURN

:op_static POP
    PUSH 33 CALLDATASIZE SUB
    DUP1 PUSH 33 PUSH 0 CALLDATACOPY
    PUSH 0 PUSH 0 DUP3 PUSH 0
    PUSH 1 CALLDATALOAD GAS STATICCALL
    PUSH 0 MSTORE POP
    RETURNDATASIZE PUSH 0 PUSH 32 RETURNDATACOPY
    RETURNDATASIZE PUSH 32 ADD PUSH 0 RETURN

:op_inc POP
    PUSH 1 CALLDATALOAD
    DUP1 SLOAD PUSH 1 ADD
    DUP1 PUSH 0 MSTORE
    SWAP1 SSTORE
    PUSH 32 PUSH 0 RETURN

:op_cond POP
    PUSH 1 CALLDATALOAD SLOAD
    DUP1 PUSH 33 CALLDATALOAD EQ
    @cond_rev JUMPI
    PUSH 0 MSTORE
    PUSH 33 CALLDATALOAD PUSH 1 CALLDATALOAD SSTORE
    PUSH 32 PUSH 0 RETURN
:cond_rev PUSH 0 PUSH 0 REVERT

:op_mstore POP
    ; touch memory at offset arg0 (memory-expansion gas), return 1
    PUSH 1 PUSH 1 CALLDATALOAD MSTORE
    PUSH 1 PUSH 0 MSTORE PUSH 32 PUSH 0 RETURN
"#;

const BATCHER_SRC: &str = r#"
    PUSH 1
:loop
    DUP1 CALLDATASIZE GT ISZERO @end JUMPI
    DUP1 CALLDATALOAD PUSH 96 SHR
    DUP2 PUSH 20 ADD CALLDATALOAD PUSH 240 SHR
    DUP1 DUP4 PUSH 22 ADD PUSH 0 CALLDATACOPY
    PUSH 0 PUSH 0 DUP3 PUSH 0 PUSH 0 DUP7 GAS CALL
    ISZERO PUSH 0 CALLDATALOAD PUSH 248 SHR AND
    @bail JUMPI
    SWAP1 POP
    ADD PUSH 22 ADD
    @loop JUMP
:end STOP
:bail RETURNDATASIZE PUSH 0 PUSH 0 RETURNDATACOPY RETURNDATASIZE PUSH 0 REVERT
"#;

/// RangeStore: calldata = op (word 0: 0 = store, 1 = sum), start (word 1), count (word 2), value (word 3).
/// store: slot[i] := value for i in start..start+count. sum: returns the sum of those slots.
const RANGESTORE_SRC: &str = r#"
    PUSH 64 CALLDATALOAD PUSH 32 CALLDATALOAD ADD
    PUSH 32 CALLDATALOAD
    PUSH 0 CALLDATALOAD @sum JUMPI
:sloop
    DUP2 DUP2 LT ISZERO @done JUMPI
    PUSH 96 CALLDATALOAD DUP2 SSTORE
    PUSH 1 ADD
    @sloop JUMP
:done STOP
:sum
    PUSH 0
:mloop
    DUP3 DUP3 LT ISZERO @mend JUMPI
    DUP2 SLOAD ADD
    SWAP1 PUSH 1 ADD SWAP1
    @mloop JUMP
:mend
    PUSH 0 MSTORE PUSH 32 PUSH 0 RETURN
"#;

pub fn rangestore_init() -> Vec<u8> {
    initcode(&assemble(RANGESTORE_SRC))
}

pub fn rangestore_call(sum: bool, start: u64, count: u64, value: u64) -> Vec<u8> {
    let mut v = Vec::with_capacity(128);
    v.extend_from_slice(&word_u64(sum as u64));
    v.extend_from_slice(&word_u64(start));
    v.extend_from_slice(&word_u64(count));
    v.extend_from_slice(&word_u64(value));
    v
}

/// Returns NUMBER || BLOCKHASH(NUMBER-1): block-dependent, but none of timestamp/randomness/gas/txid.
pub fn numhash_runtime() -> Vec<u8> {
    assemble("NUMBER PUSH 0 MSTORE PUSH 1 NUMBER SUB BLOCKHASH PUSH 32 MSTORE PUSH 64 PUSH 0 RETURN")
}

/// Returns every environment word that is not timestamp / randomness / remaining gas / txid:
/// GASLIMIT, COINBASE, BASEFEE, CHAINID, GASPRICE, ORIGIN, CALLER, CALLVALUE, SELFBALANCE, BLOBBASEFEE,
/// BALANCE(caller), ADDRESS, CODESIZE, EXTCODESIZE(caller), BLOBHASH(0).
pub fn envdump_runtime() -> Vec<u8> {
    assemble(
        "GASLIMIT PUSH 0 MSTORE COINBASE PUSH 32 MSTORE BASEFEE PUSH 64 MSTORE CHAINID PUSH 96 MSTORE \
         GASPRICE PUSH 128 MSTORE ORIGIN PUSH 160 MSTORE CALLER PUSH 192 MSTORE CALLVALUE PUSH 224 MSTORE \
         SELFBALANCE PUSH 256 MSTORE BLOBBASEFEE PUSH 288 MSTORE CALLER BALANCE PUSH 320 MSTORE \
         ADDRESS PUSH 352 MSTORE CODESIZE PUSH 384 MSTORE CALLER EXTCODESIZE PUSH 416 MSTORE \
         PUSH 0 BLOBHASH PUSH 448 MSTORE PUSH 480 PUSH 0 RETURN",
    )
}

/// Init code whose installed runtime is GASLIMIT || CHAINID || BASEFEE as seen by the deployment.
pub fn env_stamped_init() -> Vec<u8> {
    assemble("GASLIMIT PUSH 0 MSTORE CHAINID PUSH 32 MSTORE BASEFEE PUSH 64 MSTORE PUSH 96 PUSH 0 RETURN")
}

/// Init code whose installed runtime is the 32-byte block number it was deployed in.
pub fn number_stamped_init() -> Vec<u8> {
    assemble("NUMBER PUSH 0 MSTORE PUSH 32 PUSH 0 RETURN")
}

pub fn tool_runtime() -> &'static Vec<u8> {
    static C: OnceLock<Vec<u8>> = OnceLock::new();
    C.get_or_init(|| assemble(TOOL_SRC))
}

pub fn batcher_runtime() -> &'static Vec<u8> {
    static C: OnceLock<Vec<u8>> = OnceLock::new();
    C.get_or_init(|| assemble(BATCHER_SRC))
}

pub fn tool_init() -> Vec<u8> {
    initcode(tool_runtime())
}

/// Tool whose constructor writes slot 7 := 0x77 and emits LOG1(topic 0xC7).
pub fn tool_init_with_ctor() -> Vec<u8> {
    initcode_with_ctor("PUSH 0x77 PUSH 7 SSTORE PUSH 0xc7 PUSH 0 PUSH 0 LOG1", tool_runtime())
}

pub fn batcher_init() -> Vec<u8> {
    initcode(batcher_runtime())
}

// ---- calldata builders for Tool ----

pub fn word_u64(x: u64) -> [u8; 32] {
    let mut w = [0u8; 32];
    w[24..].copy_from_slice(&x.to_be_bytes());
    w
}

pub fn word_addr(a: &[u8; 20]) -> [u8; 32] {
    let mut w = [0u8; 32];
    w[12..].copy_from_slice(a);
    w
}

pub fn tool_call(op: u8, args: &[[u8; 32]], tail: &[u8]) -> Vec<u8> {
    let mut v = vec![op];
    for a in args {
        v.extend_from_slice(a);
    }
    v.extend_from_slice(tail);
    v
}

pub const OP_SSTORE: u8 = 1;
pub const OP_SLOAD: u8 = 2;
pub const OP_LOG: u8 = 3;
pub const OP_LOGS: u8 = 4;
pub const OP_PROBE: u8 = 5;
pub const OP_CREATE: u8 = 6;
pub const OP_CREATE2: u8 = 7;
pub const OP_BURN: u8 = 8;
pub const OP_REVERT: u8 = 9;
pub const OP_INVALID: u8 = 10;
pub const OP_SELFDESTRUCT: u8 = 11;
pub const OP_CALL: u8 = 12;
pub const OP_STATIC: u8 = 13;
pub const OP_INC: u8 = 14;
pub const OP_COND: u8 = 16;
pub const OP_MSTORE: u8 = 17;

/// Batcher calldata: mode byte, then entries (target, payload).
pub fn batch_call(revert_on_fail: bool, entries: &[([u8; 20], Vec<u8>)]) -> Vec<u8> {
    let mut v = vec![if revert_on_fail { 1 } else { 0 }];
    for (t, p) in entries {
        v.extend_from_slice(t);
        v.push((p.len() >> 8) as u8);
        v.push(p.len() as u8);
        v.extend_from_slice(p);
    }
    v
}
