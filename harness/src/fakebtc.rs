//! A minimal in-process Bitcoin Core JSON-RPC responder, so that `brc20_initialise` can succeed and
//! the Bitcoin precompiles answer deterministically (and fast) instead of sleeping 5x1 s and
//! panicking by design when no node is configured.

use std::collections::HashMap;
use std::io::{BufRead, BufReader, Read, Write};
use std::net::{TcpListener, TcpStream};
use std::sync::{Arc, OnceLock};

use bitcoin::absolute::LockTime;
use bitcoin::consensus::encode::serialize;
use bitcoin::hashes::Hash;
use bitcoin::transaction::Version;
use bitcoin::{Amount, OutPoint, ScriptBuf, Sequence, Transaction, TxIn, TxOut, Txid, Witness};
use serde_json::{json, Value};

#[derive(Clone)]
pub struct FakeTx {
    pub tx: Transaction,
    pub raw: Vec<u8>,
    pub txid_hex: String,
    /// Display-order txid as 32 bytes (what contracts pass to the precompiles).
    pub txid_b32: [u8; 32],
    pub block_hash_hex: Option<String>,
    pub height: Option<u64>,
}

pub struct FakeChain {
    pub txs: Vec<FakeTx>,
    pub by_txid: HashMap<String, usize>,
    pub heights: HashMap<String, u64>,
}

fn mk_tx(inputs: Vec<(Txid, u32)>, outputs: Vec<(u64, Vec<u8>)>, lock: u32) -> Transaction {
    Transaction {
        version: Version::TWO,
        lock_time: LockTime::from_consensus(lock),
        input: inputs
            .into_iter()
            .map(|(txid, vout)| TxIn {
                previous_output: OutPoint { txid, vout },
                script_sig: ScriptBuf::new(),
                sequence: Sequence::MAX,
                witness: Witness::new(),
            })
            .collect(),
        output: outputs
            .into_iter()
            .map(|(v, spk)| TxOut { value: Amount::from_sat(v), script_pubkey: ScriptBuf::from_bytes(spk) })
            .collect(),
    }
}

fn block_hash_hex(n: u64) -> String {
    let mut b = [0x11u8; 32];
    b[..8].copy_from_slice(&n.to_be_bytes());
    hex::encode(b)
}

impl FakeChain {
    pub fn build() -> FakeChain {
        let mut txs: Vec<FakeTx> = Vec::new();
        let mut add = |tx: Transaction, height: Option<u64>| -> Txid {
            let txid = tx.compute_txid();
            let txid_hex = txid.to_string();
            let mut b = [0u8; 32];
            b.copy_from_slice(&hex::decode(&txid_hex).unwrap());
            txs.push(FakeTx {
                raw: serialize(&tx),
                tx,
                txid_hex,
                txid_b32: b,
                block_hash_hex: height.map(block_hash_hex),
                height,
            });
            txid
        };
        let p2wpkh = |tag: u8| {
            let mut v = vec![0x00, 0x14];
            v.extend_from_slice(&[tag; 20]);
            v
        };
        let p2tr = |tag: u8| {
            let mut v = vec![0x51, 0x20];
            v.extend_from_slice(&[tag; 32]);
            v
        };
        // 0: coinbase at height 2
        let cb = add(mk_tx(vec![(Txid::all_zeros(), u32::MAX)], vec![(50_0000_0000, p2wpkh(1)), (0, vec![0x6a, 0x01, 0x42])], 0), Some(2));
        // 1: spends coinbase:0, two outputs, height 3
        let t1 = add(mk_tx(vec![(cb, 0)], vec![(10_0000_0000, p2tr(2)), (39_9999_0000, p2wpkh(3))], 0), Some(3));
        // 2: spends t1:0 and t1:1, three outputs, height 5
        let t2 = add(
            mk_tx(vec![(t1, 0), (t1, 1)], vec![(546, p2tr(4)), (20_0000_0000, p2wpkh(5)), (29_9998_0000, p2tr(6))], 0),
            Some(5),
        );
        // 3: spends t2:2, one output; unconfirmed
        let _t3 = add(mk_tx(vec![(t2, 2)], vec![(29_9997_0000, p2tr(7))], 0), None);
        // 4: far-future confirmation height
        let _t4 = add(mk_tx(vec![(t2, 1)], vec![(19_0000_0000, p2wpkh(8))], 0), Some(4_000_000_000));
        // 5: references a missing input transaction
        let missing = Txid::from_byte_array([0xEE; 32]);
        let _t5 = add(mk_tx(vec![(missing, 0)], vec![(1000, p2wpkh(9))], 0), Some(4));
        // 6: references an out-of-range vout of t1
        let _t6 = add(mk_tx(vec![(t1, 7)], vec![(1000, p2wpkh(10))], 0), Some(4));
        // 7: zero outputs of value, many outputs
        let _t7 = add(
            mk_tx(vec![(t2, 0)], (0..12).map(|i| (i as u64, p2wpkh(20 + i))).collect(), 17),
            Some(6),
        );
        let mut by_txid = HashMap::new();
        let mut heights = HashMap::new();
        for (i, t) in txs.iter().enumerate() {
            by_txid.insert(t.txid_hex.clone(), i);
            if let (Some(bh), Some(h)) = (&t.block_hash_hex, t.height) {
                heights.insert(bh.clone(), h);
            }
        }
        FakeChain { txs, by_txid, heights }
    }
}

pub fn chain() -> &'static FakeChain {
    static CHAIN: OnceLock<FakeChain> = OnceLock::new();
    CHAIN.get_or_init(FakeChain::build)
}

fn bip70(network: &str) -> &'static str {
    match network {
        "bitcoin" | "mainnet" => "main",
        "signet" => "signet",
        "testnet" => "test",
        "regtest" => "regtest",
        _ => "testnet4",
    }
}

fn answer(chain: &FakeChain, network: &str, req: &Value) -> Value {
    let id = req.get("id").cloned().unwrap_or(Value::Null);
    let method = req.get("method").and_then(|m| m.as_str()).unwrap_or("");
    let params = req.get("params").and_then(|p| p.as_array()).cloned().unwrap_or_default();
    let err = |code: i64, msg: &str| json!({"result": null, "error": {"code": code, "message": msg}, "id": id});
    match method {
        "getnetworkinfo" => json!({"result": {"version": 270000, "subversion": "/fake:27.0.0/"}, "error": null, "id": id}),
        "getblockchaininfo" => json!({"result": {
            "chain": bip70(network), "blocks": 10, "headers": 10,
            "bestblockhash": block_hash_hex(10), "difficulty": 1.0, "mediantime": 1_700_000_000u64,
            "verificationprogress": 1.0, "initialblockdownload": false, "chainwork": "00ff",
            "size_on_disk": 1000, "pruned": false, "warnings": ""
        }, "error": null, "id": id}),
        "getrawtransaction" => {
            let txid = params.get(0).and_then(|t| t.as_str()).unwrap_or("");
            let verbose = match params.get(1) {
                Some(Value::Bool(b)) => *b,
                Some(Value::Number(n)) => n.as_i64().unwrap_or(0) != 0,
                _ => false,
            };
            let Some(&i) = chain.by_txid.get(txid) else {
                return err(-5, "No such mempool or blockchain transaction. Use gettransaction for wallet transactions.");
            };
            let t = &chain.txs[i];
            if !verbose {
                return json!({"result": hex::encode(&t.raw), "error": null, "id": id});
            }
            let mut o = json!({
                "hex": hex::encode(&t.raw), "txid": t.txid_hex, "hash": t.tx.compute_wtxid().to_string(),
                "size": t.raw.len(), "vsize": t.raw.len(), "version": 2, "locktime": 0,
                "vin": [], "vout": []
            });
            if let Some(bh) = &t.block_hash_hex {
                o["blockhash"] = json!(bh);
                o["confirmations"] = json!(1);
                o["time"] = json!(1_700_000_000u64);
                o["blocktime"] = json!(1_700_000_000u64);
            }
            json!({"result": o, "error": null, "id": id})
        }
        "getblockheader" => {
            let bh = params.get(0).and_then(|t| t.as_str()).unwrap_or("");
            let Some(h) = chain.heights.get(bh) else {
                return err(-5, "Block not found");
            };
            json!({"result": {
                "hash": bh, "confirmations": 1, "height": h, "version": 1, "versionHex": "00000001",
                "merkleroot": hex::encode([0x22u8; 32]), "time": 1_700_000_000u64, "mediantime": 1_700_000_000u64,
                "nonce": 0, "bits": "1d00ffff", "difficulty": 1.0, "chainwork": "00ff", "nTx": 1
            }, "error": null, "id": id})
        }
        _ => err(-32601, "Method not found"),
    }
}

fn serve(mut stream: TcpStream, chain: &'static FakeChain, network: Arc<String>) {
    let Ok(clone) = stream.try_clone() else { return };
    let mut reader = BufReader::new(clone);
    loop {
        let mut line = String::new();
        match reader.read_line(&mut line) {
            Ok(0) | Err(_) => return,
            Ok(_) => {}
        }
        let mut content_length = 0usize;
        loop {
            let mut h = String::new();
            match reader.read_line(&mut h) {
                Ok(0) | Err(_) => return,
                Ok(_) => {}
            }
            if h == "\r\n" || h == "\n" {
                break;
            }
            let lower = h.to_ascii_lowercase();
            if let Some(v) = lower.strip_prefix("content-length:") {
                content_length = v.trim().parse().unwrap_or(0);
            }
        }
        let mut body = vec![0u8; content_length];
        if reader.read_exact(&mut body).is_err() {
            return;
        }
        let req: Value = serde_json::from_slice(&body).unwrap_or(Value::Null);
        let resp = if let Some(arr) = req.as_array() {
            Value::Array(arr.iter().map(|r| answer(chain, &network, r)).collect())
        } else {
            answer(chain, &network, &req)
        };
        let text = resp.to_string();
        let out = format!(
            "HTTP/1.1 200 OK\r\nContent-Type: application/json\r\nContent-Length: {}\r\n\r\n{}",
            text.len(),
            text
        );
        if stream.write_all(out.as_bytes()).is_err() {
            return;
        }
        let _ = stream.flush();
    }
}

/// Starts the responder on a free loopback port; returns its URL. Lives for the process lifetime.
pub fn start(network: &str) -> String {
    let listener = TcpListener::bind("127.0.0.1:0").expect("bind fake bitcoind");
    let port = listener.local_addr().unwrap().port();
    let network = Arc::new(network.to_string());
    let ch = chain();
    std::thread::Builder::new()
        .name("fakebtc".into())
        .spawn(move || {
            for conn in listener.incoming() {
                if let Ok(stream) = conn {
                    let n = network.clone();
                    let _ = std::thread::Builder::new().name("fakebtc-conn".into()).spawn(move || serve(stream, ch, n));
                }
            }
        })
        .expect("spawn fake bitcoind");
    format!("http://127.0.0.1:{}", port)
}
