//! vh — runtime-monitoring harness for brc20-programmable-module.
//!
//!   vh run <ID> <quick|thorough>            parent: fans out to worker subprocesses, merges, verdict
//!   vh worker <ID> <tier> <seed> <shard> <nshards> <outfile> [extra]
//!   vh replay <ID> <file>
//!   vh smoke

mod asm;
mod crashlabel;
mod fakebtc;
mod hist;
mod http;
mod obs;
mod pre;
mod props;
mod report;
mod rng;
mod rpc;

use std::path::PathBuf;
use std::process::{Child, Command, Stdio};
use std::time::{Duration, Instant};

use report::WorkerReport;

pub struct WorkerCtx {
    pub prop: String,
    pub tier: String,
    pub seed: u64,
    pub shard: u64,
    pub nshards: u64,
    pub extra: Vec<String>,
}

impl WorkerCtx {
    pub fn thorough(&self) -> bool {
        self.tier == "thorough"
    }
    pub fn rng(&self) -> rng::Rng {
        rng::Rng::new(self.seed ^ (self.shard + 1).wrapping_mul(0x9E3779B97F4A7C15) ^ 0xC0FFEE)
    }
}

/// Per-process environment: fake Bitcoin node + global CONFIG. One configuration per process.
pub fn setup_env(network: &str, traces: bool) -> String {
    rpc::install_panic_hook();
    let url = fakebtc::start(network);
    rpc::set_global_config(network, traces, &url);
    url
}

fn seed_from_env() -> u64 {
    std::env::var("VERIF_SEED").ok().and_then(|s| s.parse::<u64>().ok()).unwrap_or(1)
}

fn main() {
    let args: Vec<String> = std::env::args().collect();
    let cmd = args.get(1).map(|s| s.as_str()).unwrap_or("");
    match cmd {
        "run" => {
            let id = args.get(2).expect("property id").clone();
            let tier = args.get(3).cloned().unwrap_or_else(|| std::env::var("VERIF_TIER").unwrap_or_else(|_| "quick".into()));
            std::process::exit(run_parent(&id, &tier));
        }
        "worker" => {
            let ctx = WorkerCtx {
                prop: args[2].clone(),
                tier: args[3].clone(),
                seed: args[4].parse().unwrap(),
                shard: args[5].parse().unwrap(),
                nshards: args[6].parse().unwrap(),
                extra: args[8..].to_vec(),
            };
            let out = PathBuf::from(&args[7]);
            crashlabel::install(&out.with_extension("crash"));
            let mut rep = props::worker(&ctx);
            let big = hist::BIG_BLOCKS.load(std::sync::atomic::Ordering::Relaxed);
            if big > 0 {
                rep.count("generated_blocks_with_over_256_transactions", big);
            }
            std::fs::write(&out, serde_json::to_string(&rep).unwrap()).expect("write worker report");
            // scratch databases of this process
            rpc::remove_dir(&rpc::process_work_dir(&ctx.prop));
            std::process::exit(0);
        }
        "replay" => {
            let id = args.get(2).expect("property id").clone();
            let file = args.get(3).expect("replay file").clone();
            std::process::exit(props::replay(&id, &file));
        }
        "golden-gen" => {
            // deliberate regeneration of the pinned digests (never called by a registered command)
            let exe = std::env::current_exe().unwrap();
            let mut kids = Vec::new();
            for i in 0..3 {
                let out = report::out_dir().join(format!("golden-gen-{}.json", i));
                kids.push(Command::new(&exe).args(["worker", "C02", "quick", "0", &i.to_string(), "3", out.to_str().unwrap(), "golden-gen"]).spawn().unwrap());
            }
            for mut k in kids {
                let _ = k.wait();
            }
        }
        "exp" => {
            props::exp::run();
        }
        "native-corpus" => {
            props::c15::native_corpus();
        }
        "smoke" => {
            props::smoke::run();
        }
        _ => {
            eprintln!("usage: vh run <ID> <quick|thorough> | vh replay <ID> <file> | vh smoke");
            std::process::exit(2);
        }
    }
}

struct Running {
    child: Child,
    shard: u64,
    out: PathBuf,
    started: Instant,
}

pub fn run_parent(id: &str, tier: &str) -> i32 {
    let Some(plan) = props::plan(id, tier) else {
        eprintln!("unknown property {}", id);
        return 2;
    };
    let seed = seed_from_env();
    let t0 = Instant::now();
    let exe = std::env::current_exe().expect("current exe");
    let outdir = report::out_dir().join("workers");
    let _ = std::fs::create_dir_all(&outdir);
    let max_par = plan.max_parallel.max(1);
    let mut pending: Vec<u64> = (0..plan.shards).collect();
    pending.reverse();
    let mut running: Vec<Running> = Vec::new();
    let mut merged = WorkerReport::default();
    let watchdog = Duration::from_secs(plan.worker_timeout_s);
    loop {
        while running.len() < max_par as usize {
            let Some(shard) = pending.pop() else { break };
            let out = outdir.join(format!("{}-{}-{}-{}.json", id, tier, std::process::id(), shard));
            let _ = std::fs::remove_file(&out);
            let logf = std::fs::File::create(outdir.join(format!("{}-{}-{}-{}.log", id, tier, std::process::id(), shard))).ok();
            let mut c = Command::new(&exe);
            c.args(["worker", id, tier, &seed.to_string(), &shard.to_string(), &plan.shards.to_string(), out.to_str().unwrap()]);
            c.args(&plan.extra);
            c.stdin(Stdio::null());
            if let Some(f) = logf {
                if let Ok(f2) = f.try_clone() {
                    c.stdout(Stdio::from(f2));
                }
                c.stderr(Stdio::from(f));
            }
            match c.spawn() {
                Ok(child) => running.push(Running { child, shard, out, started: Instant::now() }),
                Err(e) => merged.inconclusive(format!("spawn failed for shard {}: {}", shard, e)),
            }
        }
        if running.is_empty() {
            break;
        }
        std::thread::sleep(Duration::from_millis(50));
        let mut i = 0;
        while i < running.len() {
            let done = match running[i].child.try_wait() {
                Ok(Some(status)) => Some(status.code()),
                Ok(None) => {
                    if running[i].started.elapsed() > watchdog {
                        let _ = running[i].child.kill();
                        let _ = running[i].child.wait();
                        merged.inconclusive(format!("shard {} exceeded the {} s watchdog and was killed", running[i].shard, plan.worker_timeout_s));
                        running.remove(i);
                        continue;
                    }
                    None
                }
                Err(_) => Some(None),
            };
            if let Some(code) = done {
                let r = running.remove(i);
                match report::read_report(&r.out) {
                    Some(rep) => merged.merge(rep),
                    None => {
                        // A worker that died without a report. Where the worker only evaluates the code
                        // under test on generated inputs (C14, C15, C13, C09) and left a crash label, the
                        // death itself is the violation (allocation failures and aborts escape
                        // catch_unwind); otherwise it is inconclusive.
                        let label = std::fs::read_to_string(r.out.with_extension("crash")).unwrap_or_default();
                        if !label.is_empty() && matches!(id, "C14" | "C15" | "C13" | "C09") {
                            let what = format!("the worker process was killed ({:?}) while evaluating: {}", code, label);
                            let replay = report::write_replay(id, seed, &serde_json::json!({"property": id, "seed": seed, "signature": format!("abort:{}", label.split(' ').next().unwrap_or("")), "what": what, "shard": r.shard}));
                            merged.violations.push(report::Violation { sig: format!("abort:{}", label.split(' ').next().unwrap_or("")), what, replay });
                        } else {
                            merged.inconclusive(format!("shard {} exited with {:?} without a report{}", r.shard, code, if label.is_empty() { String::new() } else { format!(" (while: {})", label) }));
                        }
                    }
                }
                let _ = std::fs::remove_file(&r.out);
                let _ = std::fs::remove_file(r.out.with_extension("crash"));
                continue;
            }
            i += 1;
        }
    }
    let spec = props::spec(id).expect("spec");
    report::finish(&spec, tier, seed, t0.elapsed().as_secs_f64(), &merged)
}
