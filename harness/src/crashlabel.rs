//! What was being evaluated when the process died: allocation failures and other aborts escape
//! catch_unwind, so a worker keeps a short label of the current case in static memory and a signal
//! handler for SIGABRT/SIGSEGV/SIGBUS/SIGILL writes it to a file opened in advance.

use std::sync::atomic::{AtomicI32, AtomicUsize, Ordering};

static mut LABEL: [u8; 512] = [0u8; 512];
static LEN: AtomicUsize = AtomicUsize::new(0);
static FD: AtomicI32 = AtomicI32::new(-1);

pub fn set(label: &str) {
    let b = label.as_bytes();
    let n = b.len().min(512);
    unsafe {
        let dst = std::ptr::addr_of_mut!(LABEL) as *mut u8;
        std::ptr::copy_nonoverlapping(b.as_ptr(), dst, n);
    }
    LEN.store(n, Ordering::Release);
}

extern "C" fn on_signal(sig: libc::c_int) {
    let fd = FD.load(Ordering::Acquire);
    if fd >= 0 {
        let n = LEN.load(Ordering::Acquire);
        unsafe {
            let src = std::ptr::addr_of!(LABEL) as *const u8;
            libc::write(fd, src as *const libc::c_void, n);
            libc::fsync(fd);
        }
    }
    unsafe {
        libc::signal(sig, libc::SIG_DFL);
        libc::raise(sig);
    }
}

/// Install the handlers; the label goes to `<path>`.
pub fn install(path: &std::path::Path) {
    if let Ok(c) = std::ffi::CString::new(path.to_string_lossy().as_bytes()) {
        let fd = unsafe { libc::open(c.as_ptr(), libc::O_CREAT | libc::O_WRONLY | libc::O_TRUNC, 0o644) };
        FD.store(fd, Ordering::Release);
    }
    for s in [libc::SIGABRT, libc::SIGSEGV, libc::SIGBUS, libc::SIGILL] {
        unsafe {
            libc::signal(s, on_signal as usize);
        }
    }
}
