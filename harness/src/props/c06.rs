//! C06 — blocks, transactions, receipts, logs and inscription indexes are coherent.

use std::collections::{BTreeMap, BTreeSet};

use alloy::consensus::{Block, ReceiptWithBloom, TxEnvelope};
use alloy::consensus::Transaction as _;
use alloy::primitives::keccak256;
use alloy_rlp::Decodable;
use serde_json::{json, Value};
use sha2::{Digest, Sha256};

use super::common::*;
use crate::hist::{self, Ctx, Driver, Enc, Op, Target, World};
use crate::report::{Spec, WorkerReport};
use crate::rpc::{self, Resp};
use crate::WorkerCtx;

pub fn spec() -> Spec {
    Spec {
        prop: "C06",
        level: "exploration",
        rule: "Invariant checker over the RPC surface only, everything recomputed independently (own 2048-bit bloom, own sha256 merkle with odd-node promotion, alloy-rlp decoding of raw block/header/receipts): heights contiguous, parent links, hash<->number inversion, block transaction list = receipts handed to the indexer in index order, tx/receipt/(block,index)/inscription lookups agree, logIndex contiguous, cumulative gas = running sum ending at block gasUsed, blooms, transactions root, counts, contract address -> inscription id. Checked at every block boundary over all heights of random histories (all op kinds, multi-tx/empty blocks, failing/reverting/invalid transactions, factory-created contracts, pool drains, reorg + regrowth). Directed: blocks whose gas total exceeds 2^64 (halting calls with huge reported lengths) must keep receipts and header consistent (the engine stops adding at the last representable total). Non-trivial = block with >=2 transactions and >=2 logs that passed all equations; distinct by block content digest.",
        assumptions: vec!["inscription ids are unique per transaction in generated histories, as on Bitcoin".into()],
        exhaustive: false,
        min_nontrivial: 2,
    }
}

pub fn bloom_of(items: &[Vec<u8>]) -> [u8; 256] {
    let mut b = [0u8; 256];
    for it in items {
        let h = keccak256(it);
        for i in [0usize, 2, 4] {
            let bit = (((h[i] as usize) << 8) | h[i + 1] as usize) & 2047;
            b[255 - bit / 8] |= 1 << (bit % 8);
        }
    }
    b
}

pub fn merkle_root(leaves: &[[u8; 32]]) -> [u8; 32] {
    if leaves.is_empty() {
        return [0u8; 32];
    }
    let mut layer: Vec<[u8; 32]> = leaves.to_vec();
    while layer.len() > 1 {
        let mut next = Vec::new();
        for pair in layer.chunks(2) {
            if pair.len() == 2 {
                let mut h = Sha256::new();
                h.update(pair[0]);
                h.update(pair[1]);
                let mut o = [0u8; 32];
                o.copy_from_slice(&h.finalize());
                next.push(o);
            } else {
                next.push(pair[0]);
            }
        }
        layer = next;
    }
    layer[0]
}

fn hexb(s: &str) -> Vec<u8> {
    hex::decode(s.trim_start_matches("0x")).unwrap_or_default()
}

fn h32(s: &str) -> [u8; 32] {
    let mut o = [0u8; 32];
    let b = hexb(s);
    if b.len() == 32 {
        o.copy_from_slice(&b);
    }
    o
}

fn qty(v: &Value) -> u64 {
    v.as_str().and_then(|s| u64::from_str_radix(s.trim_start_matches("0x"), 16).ok()).unwrap_or(u64::MAX)
}

fn s<'a>(v: &'a Value, k: &str) -> &'a str {
    v.get(k).and_then(|x| x.as_str()).unwrap_or("")
}

pub struct Checker<'a> {
    pub rep: &'a mut WorkerReport,
    pub seed: u64,
    pub case_seed: u64,
    pub net: &'a str,
    pub failed: bool,
}

impl<'a> Checker<'a> {
    fn fail(&mut self, d: &Driver, sig: &str, what: String, detail: Value) {
        if self.failed {
            return;
        }
        self.failed = true;
        violation(self.rep, "C06", self.seed, sig, what, json!({"case_seed": self.case_seed, "network": self.net, "detail": detail, "history": log_json(&d.log, 300)}));
    }

    /// All equations over all heights. Returns false on the first violation.
    pub fn check_all(&mut self, d: &mut Driver) -> bool {
        let h = d.height;
        let bn = d.inst.call("eth_blockNumber", json!([]));
        if h >= 0 && bn.ok().map(qty) != Some(h as u64) {
            self.fail(d, "height", format!("eth_blockNumber = {} but {} blocks were finalised", bn.short(), h + 1), json!({}));
            return false;
        }
        let above = d.inst.call("eth_getBlockByNumber", json!([format!("0x{:x}", h + 1), false]));
        if above.is_ok() {
            self.fail(d, "block-above-height", "a block above the current height is served".into(), json!({"block": above.short()}));
            return false;
        }
        // one hash handed out for transactions of two different senders (signing-hash era)
        {
            let mut by_hash: BTreeMap<String, BTreeSet<String>> = BTreeMap::new();
            for rs in d.chain_resp.iter() {
                for r in rs {
                    for rc in hist::receipts_in(r) {
                        by_hash.entry(s(&rc, "transactionHash").to_string()).or_default().insert(s(&rc, "from").to_string());
                    }
                }
            }
            if let Some((hsh, froms)) = by_hash.iter().find(|(_, f)| f.len() >= 2) {
                let (hsh, froms) = (hsh.clone(), froms.clone());
                self.fail(d, "tx-hash-collision-between-signers", format!("transactions of different senders {:?} got the same transaction hash {} (network {}: the hash is the signing hash, which does not cover the signature); the later one replaces the earlier one in every by-hash lookup", froms, hsh, self.net), json!({"hash": hsh, "senders": froms}));
                return false;
            }
        }
        // signed transactions that are still waiting: a by-hash lookup may know them (without block
        // coordinates) or not, but if it places one in a block, that block must list it there
        if let Some(pool) = d.inst.call("txpool_content", json!([])).ok().cloned() {
            let mut waiting: Vec<String> = Vec::new();
            for section in ["pending", "queued"] {
                if let Some(by_addr) = pool[section].as_object() {
                    for (_, by_nonce) in by_addr {
                        if let Some(m) = by_nonce.as_object() {
                            for (_, tx) in m {
                                if let Some(hh) = tx["hash"].as_str() {
                                    waiting.push(hh.to_string());
                                }
                            }
                        }
                    }
                }
            }
            for hh in waiting.into_iter().take(40) {
                let t = d.inst.call("eth_getTransactionByHash", json!([hh]));
                let rc = d.inst.call("eth_getTransactionReceipt", json!([hh]));
                self.rep.evaluations += 1;
                self.rep.nontrivial("waiting-tx-by-hash-lookup".to_string());
                let Some(tv) = t.ok().cloned() else { continue };
                if tv.is_null() || tv["blockNumber"].is_null() {
                    continue;
                }
                let idx = qty(&tv["transactionIndex"]) as usize;
                let blk = d.inst.call("eth_getBlockByNumber", json!([tv["blockNumber"], false]));
                let listed = blk.ok().and_then(|b| b["transactions"].as_array().and_then(|a| a.get(idx).cloned())).and_then(|x| x.as_str().map(|x| x.eq_ignore_ascii_case(&hh))).unwrap_or(false);
                let has_receipt = rc.ok().map(|v| !v.is_null()).unwrap_or(false);
                if !listed || !has_receipt {
                    self.fail(d, "lookup-places-waiting-tx-in-block", format!("eth_getTransactionByHash({}) says block {} index {} but that block does not list it there (listed: {}, receipt: {}); the transaction is still waiting in the pool", hh, tv["blockNumber"], idx, listed, has_receipt), json!({"lookup": tv}));
                    return false;
                }
            }
        }
        // hashes that are not blocks of the chain (orphaned by a rollback or a discard, or never used):
        // every by-hash lookup must say so, none may fall back to some other block
        {
            let current: BTreeSet<String> = d.chain.iter().flatten().filter_map(|o| match o { Op::Finalise { hash, .. } | Op::Init { hash, .. } => Some(hash.to_lowercase()), _ => None }).collect();
            let mut foreign: Vec<String> = d.log.iter().filter_map(|(o, r)| match o { Op::Finalise { hash, .. } if r.is_ok() && hash != hist::ZERO_HASH && !current.contains(&hash.to_lowercase()) => Some(hash.clone()), _ => None }).collect();
            foreign.dedup();
            foreign.truncate(3);
            foreign.push(hist::bh(0xf0_4e16_0000 + (h.max(0) as u64)));
            foreign.push("0xffffffffffffffffffffffffffffffffffffffffffffffffffffffffffffffff".to_string());
            for fh in foreign {
                for (m, params) in [
                    ("eth_getBlockByHash", json!([fh, false])),
                    ("eth_getBlockByHash", json!([fh, true])),
                    ("eth_getBlockTransactionCountByHash", json!([fh])),
                    ("eth_getTransactionByBlockHashAndIndex", json!([fh, 0])),
                    ("eth_getTransactionByBlockHashAndIndex", json!([fh, 1])),
                    ("debug_getRawHeader", json!([fh])),
                    ("debug_getRawBlock", json!([fh])),
                    ("debug_getRawReceipts", json!([fh])),
                ] {
                    let r = d.inst.call(m, params.clone());
                    self.rep.evaluations += 1;
                    let nothing = match &r { Resp::Ok(v) => v.is_null(), Resp::Err { .. } => true, _ => false };
                    if !nothing {
                        self.fail(d, &format!("foreign-hash-served:{}", m), format!("{}({}) for a hash that is not a block of the chain returned {}", m, params, r.short()), json!({"hash": fh}));
                        return false;
                    }
                }
                self.rep.nontrivial("foreign-block-hash-lookups".to_string());
            }
        }
        let mut prev_hash: Option<String> = None;
        // long stretches of mined (empty) blocks - chains initialised at a large height, or a gap of
        // 2^16 blocks - are sampled: their ends, and the blocks around multiples of 256 and 65 536
        let mined: Vec<bool> = d.chain.iter().map(|ops| ops.len() == 1 && matches!(ops[0], Op::Mine { .. })).collect();
        let mut n: i64 = 0;
        while n <= h {
            let i = n as usize;
            let in_run = mined.get(i).copied().unwrap_or(false)
                && (1..=3).all(|k| mined.get(i.wrapping_sub(k)).copied().unwrap_or(false) && mined.get(i + k).copied().unwrap_or(false));
            let boundary = (n % 256 <= 1 || n % 256 == 255) && (n % 65_536 <= 1 || n % 65_536 >= 65_534 || n % 8192 <= 1);
            if in_run && !boundary {
                prev_hash = None;
                n += 1;
                continue;
            }
            if !self.check_block(d, n as u64, &mut prev_hash) {
                return false;
            }
            n += 1;
        }
        true
    }

    fn check_block(&mut self, d: &mut Driver, n: u64, prev_hash: &mut Option<String>) -> bool {
        let nhex = format!("0x{:x}", n);
        let blk = match d.inst.call("eth_getBlockByNumber", json!([nhex, false])) {
            Resp::Ok(b) => b,
            other => {
                self.fail(d, "missing-block", format!("block {} below the height is not served: {}", n, other.short()), json!({}));
                return false;
            }
        };
        if qty(&blk["number"]) != n {
            self.fail(d, "block-number", format!("block served for height {} says number {}", n, blk["number"]), json!({}));
            return false;
        }
        let hash = s(&blk, "hash").to_string();
        let parent = s(&blk, "parentHash").to_string();
        // (after a skipped stretch of mined blocks the predecessor is fetched)
        let want_parent = match (&prev_hash, n) {
            (Some(p), _) => p.clone(),
            (None, 0) => hist::ZERO_HASH.to_string(),
            (None, _) => d.inst.call("eth_getBlockByNumber", json!([format!("0x{:x}", n - 1), false])).ok().map(|b| s(b, "hash").to_string()).unwrap_or_default(),
        };
        if parent != want_parent {
            self.fail(d, "parent-hash", format!("block {} has parentHash {} but block {} has hash {}", n, parent, n as i64 - 1, want_parent), json!({}));
            return false;
        }
        *prev_hash = Some(hash.clone());
        match d.inst.call("eth_getBlockByHash", json!([hash, false])) {
            Resp::Ok(b2) => {
                let (mut x, mut y) = (blk.clone(), b2);
                crate::obs::canon(&mut x);
                crate::obs::canon(&mut y);
                if x != y {
                    self.fail(d, "hash-number-inversion", format!("block {} fetched by its hash differs from the block fetched by number", n), json!({"by_number": x, "by_hash": y}));
                    return false;
                }
            }
            other => {
                self.fail(d, "hash-number-inversion", format!("block {} cannot be fetched by its own hash {}: {}", n, hash, other.short()), json!({}));
                return false;
            }
        }
        // the same block with full transaction objects, by number and by hash: the same objects, in the
        // order of the hash list
        {
            let fn_ = d.inst.call("eth_getBlockByNumber", json!([nhex, true]));
            let fh = d.inst.call("eth_getBlockByHash", json!([hash, true]));
            self.rep.evaluations += 1;
            let hashes_of = |r: &Resp| -> Option<Vec<String>> { r.ok().and_then(|b| b["transactions"].as_array().map(|a| a.iter().map(|t| t["hash"].as_str().unwrap_or("?").to_lowercase()).collect())) };
            let want: Vec<String> = blk["transactions"].as_array().map(|a| a.iter().filter_map(|x| x.as_str().map(|s| s.to_lowercase())).collect()).unwrap_or_default();
            let (a, b) = (hashes_of(&fn_), hashes_of(&fh));
            if a.as_ref() != Some(&want) || b.as_ref() != Some(&want) {
                self.fail(d, "full-transactions-differ-from-hash-list", format!("block {} lists {} transactions, with full objects it lists {:?} by number and {:?} by hash", n, want.len(), a.map(|x| x.len()), b.map(|x| x.len())), json!({"hash_list": want}));
                return false;
            }
            if let (Some(x), Some(y)) = (fn_.ok(), fh.ok()) {
                let (mut x, mut y) = (x.clone(), y.clone());
                crate::obs::canon(&mut x);
                crate::obs::canon(&mut y);
                if x != y {
                    self.fail(d, "hash-number-inversion", format!("block {} with full transactions fetched by its hash differs from the block fetched by number", n), json!({"by_number": x, "by_hash": y}));
                    return false;
                }
            }
            if want.len() > 0 && qty(&blk["gasUsed"]) == 0 {
                self.rep.nontrivial("block-with-transactions-and-no-gas-used".to_string());
            }
        }
        // receipts handed to the indexer for this height
        let ops = d.chain.get(n as usize).cloned().unwrap_or_default();
        let resps = d.chain_resp.get(n as usize).cloned().unwrap_or_default();
        let is_init = matches!(ops.first(), Some(Op::Init { .. }));
        let mut handed: Vec<(Value, String)> = Vec::new(); // (receipt, inscription id)
        for (op, r) in ops.iter().zip(resps.iter()) {
            if !op.is_tx() {
                continue;
            }
            let iid = match op {
                Op::Deploy { iid, .. } | Op::Call { iid, .. } | Op::Transact { iid, .. } | Op::Deposit { iid, .. } | Op::Withdraw { iid, .. } => iid.clone(),
                _ => String::new(),
            };
            for (k, rc) in hist::receipts_in(r).into_iter().enumerate() {
                // drained pool entries carry their own inscription ids (unknown here): mark with '?'
                handed.push((rc, if k == 0 { iid.clone() } else { "?".into() }));
            }
        }
        let listed: Vec<String> = blk["transactions"].as_array().map(|a| a.iter().filter_map(|x| x.as_str().map(|s| s.to_string())).collect()).unwrap_or_default();
        if !is_init {
            let want: Vec<String> = handed.iter().map(|(r, _)| s(r, "transactionHash").to_string()).collect();
            // duplicates (same hash handed twice) are the signature of the invalid-transaction nonce defect
            let mut seen = BTreeSet::new();
            let mut dup = None;
            for (i, hsh) in want.iter().enumerate() {
                if !seen.insert(hsh.clone()) {
                    dup = Some(i);
                    break;
                }
            }
            if let Some(i) = dup {
                let first = handed.iter().find(|(r, _)| s(r, "transactionHash") == want[i]).map(|(r, _)| r.clone()).unwrap_or(Value::Null);
                let invalid_first = qty(&first["gasUsed"]) == 0 && s(&first, "status") == "0x0";
                let sig = if invalid_first { "duplicate-tx-hash-after-invalid-tx" } else { "duplicate-tx-hash" };
                self.fail(d, sig, format!("block {} was handed two transactions with the same hash {} (the first one was {}invalid: gasUsed 0, nonce not consumed)", n, want[i], if invalid_first { "" } else { "not " }), json!({"block": n, "hash": want[i], "first_receipt": first}));
                return false;
            }
            if listed != want {
                self.fail(d, "block-tx-list", format!("block {} lists {} transactions, the indexer was handed {} receipts (or in another order)", n, listed.len(), want.len()), json!({"listed": listed, "handed": want}));
                return false;
            }
        } else if listed.len() != 1 {
            self.fail(d, "genesis-tx-list", format!("the initialise block lists {} transactions", listed.len()), json!({}));
            return false;
        }
        for (m, p) in [("eth_getBlockTransactionCountByNumber", json!([nhex])), ("eth_getBlockTransactionCountByHash", json!([hash]))] {
            let c = d.inst.call(m, p);
            if c.ok().map(qty) != Some(listed.len() as u64) {
                self.fail(d, "tx-count", format!("{} of block {} = {} but the block lists {}", m, n, c.short(), listed.len()), json!({}));
                return false;
            }
        }
        // per transaction
        let mut log_index = 0u64;
        let mut cum_gas = 0u64;
        let mut block_bloom = [0u8; 256];
        let mut nlogs = 0usize;
        let mut txs_json: Vec<Value> = Vec::new();
        let mut rcs_json: Vec<Value> = Vec::new();
        for (i, th) in listed.iter().enumerate() {
            let tx = d.inst.call("eth_getTransactionByHash", json!([th]));
            let Some(tx) = tx.ok().filter(|t| !t.is_null()).cloned() else {
                self.fail(d, "tx-by-hash", format!("transaction {} listed in block {} is not served by hash", th, n), json!({}));
                return false;
            };
            if s(&tx, "hash") != th || s(&tx, "blockHash") != hash || qty(&tx["blockNumber"]) != n || qty(&tx["transactionIndex"]) != i as u64 {
                // the invalid-transaction nonce defect across blocks: the transaction handed in here was
                // invalid (no gas, nonce not consumed) and the identical inscription was repeated in a
                // later block, got the same hash and replaced this record
                let handed_invalid = !is_init && handed.get(i).map(|(r, _)| qty(&r["gasUsed"]) == 0 && s(r, "status") == "0x0").unwrap_or(false);
                let other = qty(&tx["blockNumber"]);
                let listed_there = other > n && d.inst.call("eth_getBlockByNumber", json!([format!("0x{:x}", other), false])).ok().and_then(|b| b["transactions"].as_array().map(|a| a.iter().any(|x| x.as_str() == Some(th.as_str())))).unwrap_or(false);
                if s(&tx, "hash") == th && handed_invalid && listed_there {
                    self.fail(d, "duplicate-tx-hash-after-invalid-tx:across-blocks", format!("transaction {} was invalid in block {} (gasUsed 0, nonce not consumed); the identical inscription repeated in block {} got the same hash and replaced its record", th, n, other), json!({"tx": tx, "handed_in_block": n}));
                    return false;
                }
                self.fail(d, "tx-position", format!("transaction {} is listed at ({}, {}) but says ({}, {}, {})", th, n, i, tx["blockNumber"], tx["transactionIndex"], tx["blockHash"]), json!({"tx": tx}));
                return false;
            }
            for (m, p) in [("eth_getTransactionByBlockNumberAndIndex", json!([n, i])), ("eth_getTransactionByBlockHashAndIndex", json!([hash, i]))] {
                let t2 = d.inst.call(m, p);
                if t2.ok() != Some(&tx) {
                    self.fail(d, "tx-by-index", format!("{}({}, {}) does not return the transaction listed there", m, n, i), json!({"listed": th, "got": t2.short()}));
                    return false;
                }
            }
            let rc = d.inst.call("eth_getTransactionReceipt", json!([th]));
            let Some(rc) = rc.ok().filter(|t| !t.is_null()).cloned() else {
                self.fail(d, "receipt-by-hash", format!("no receipt for transaction {} of block {}", th, n), json!({}));
                return false;
            };
            if !is_init {
                let (handed_rc, iid) = &handed[i];
                if handed_rc != &rc {
                    self.fail(d, "receipt-differs-from-handed", format!("the receipt served for {} differs from the one returned to the indexer", th), json!({"handed": handed_rc, "served": rc}));
                    return false;
                }
                if iid != "?" {
                    let by_iid = d.inst.call("brc20_getTxReceiptByInscriptionId", json!([iid]));
                    if by_iid.ok() != Some(&rc) {
                        self.fail(d, "receipt-by-inscription", format!("receipt by inscription id {} is not the receipt of its transaction", iid), json!({"by_inscription": by_iid.short(), "by_hash": rc}));
                        return false;
                    }
                    let back = d.inst.call("brc20_getInscriptionIdByTxHash", json!([th]));
                    if back.ok().and_then(|x| x.as_str()) != Some(iid.as_str()) {
                        self.fail(d, "inscription-by-tx", format!("brc20_getInscriptionIdByTxHash({}) = {} but the transaction was inscribed as {}", th, back.short(), iid), json!({}));
                        return false;
                    }
                }
            }
            if s(&rc, "transactionHash") != th || s(&rc, "blockHash") != hash || qty(&rc["blockNumber"]) != n || qty(&rc["transactionIndex"]) != i as u64 {
                self.fail(d, "receipt-position", format!("receipt of {} says ({}, {})", th, rc["blockNumber"], rc["transactionIndex"]), json!({"receipt": rc}));
                return false;
            }
            if rc["from"] != tx["from"] || rc["to"] != tx["to"] {
                self.fail(d, "receipt-tx-parties", format!("receipt and transaction {} disagree on from/to", th), json!({"receipt": rc, "tx": tx}));
                return false;
            }
            // logs
            let logs = rc["logs"].as_array().cloned().unwrap_or_default();
            let mut items: Vec<Vec<u8>> = Vec::new();
            for l in &logs {
                if qty(&l["logIndex"]) != log_index {
                    self.fail(d, "log-index", format!("log index in block {} is {} where {} is expected", n, l["logIndex"], log_index), json!({"receipt": rc}));
                    return false;
                }
                log_index += 1;
                if s(l, "transactionHash") != th || s(l, "blockHash") != hash || qty(&l["blockNumber"]) != n || qty(&l["transactionIndex"]) != i as u64 {
                    self.fail(d, "log-position", format!("a log of {} carries a different position", th), json!({"log": l}));
                    return false;
                }
                items.push(hexb(s(l, "address")));
                for t in l["topics"].as_array().cloned().unwrap_or_default() {
                    items.push(hexb(t.as_str().unwrap_or("")));
                }
            }
            nlogs += logs.len();
            let bl = bloom_of(&items);
            if hexb(s(&rc, "logsBloom")) != bl.to_vec() {
                self.fail(d, "receipt-bloom", format!("logsBloom of receipt {} is not the bloom of its logs", th), json!({"receipt": rc}));
                return false;
            }
            for k in 0..256 {
                block_bloom[k] |= bl[k];
            }
            let g = qty(&rc["gasUsed"]);
            cum_gas = cum_gas.checked_add(g).unwrap_or(cum_gas);
            if qty(&rc["cumulativeGasUsed"]) != cum_gas {
                self.fail(d, "cumulative-gas", format!("cumulativeGasUsed of tx {} in block {} is {} but the running sum is 0x{:x}", i, n, rc["cumulativeGasUsed"], cum_gas), json!({}));
                return false;
            }
            // contract address -> inscription id
            if let Some(a) = rc["contractAddress"].as_str() {
                let map = d.inst.call("brc20_getInscriptionIdByContractAddress", json!([a]));
                let want = if is_init { Some("BRC20_CONTROLLER_INIT".to_string()) } else { Some(handed[i].1.clone()) };
                if want.as_deref() != Some("?") && map.ok().and_then(|x| x.as_str()).map(|x| x.to_string()) != want {
                    self.fail(d, "contract-inscription", format!("contract {} was created by inscription {:?} but brc20_getInscriptionIdByContractAddress says {}", a, want, map.short()), json!({}));
                    return false;
                }
            }
            txs_json.push(tx);
            rcs_json.push(rc);
        }
        if qty(&blk["gasUsed"]) != cum_gas {
            self.fail(d, "block-gas", format!("block {} gasUsed {} != sum of its receipts 0x{:x}", n, blk["gasUsed"], cum_gas), json!({}));
            return false;
        }
        if hexb(s(&blk, "logsBloom")) != block_bloom.to_vec() {
            self.fail(d, "block-bloom", format!("logsBloom of block {} is not the union of its receipts' blooms", n), json!({}));
            return false;
        }
        let leaves: Vec<[u8; 32]> = listed.iter().map(|x| h32(x)).collect();
        if h32(s(&blk, "transactionsRoot")) != merkle_root(&leaves) {
            self.fail(d, "transactions-root", format!("transactionsRoot of block {} is not the sha256 merkle root of its transaction hashes", n), json!({"root": blk["transactionsRoot"], "expected": hex::encode(merkle_root(&leaves))}));
            return false;
        }
        // raw encodings
        let raw_block = d.inst.call("debug_getRawBlock", json!([nhex]));
        let raw_header = d.inst.call("debug_getRawHeader", json!([nhex]));
        let raw_receipts = d.inst.call("debug_getRawReceipts", json!([nhex]));
        let (Some(rb), Some(rh), Some(rr)) = (raw_block.ok().and_then(|x| x.as_str()), raw_header.ok().and_then(|x| x.as_str()), raw_receipts.ok().and_then(|x| x.as_array())) else {
            self.fail(d, "raw-missing", format!("raw block/header/receipts of block {} are not served", n), json!({"block": raw_block.short(), "header": raw_header.short(), "receipts": raw_receipts.short()}));
            return false;
        };
        let rbb = hexb(rb);
        let dec = Block::<TxEnvelope>::decode(&mut rbb.as_slice());
        let Ok(dec) = dec else {
            self.fail(d, "raw-block-undecodable", format!("raw block {} does not RLP-decode", n), json!({}));
            return false;
        };
        let hd = &dec.header;
        let mut hdr_bytes = Vec::new();
        alloy_rlp::Encodable::encode(hd, &mut hdr_bytes);
        if hexb(rh) != hdr_bytes {
            self.fail(d, "raw-header", format!("raw header of block {} differs from the header inside the raw block", n), json!({}));
            return false;
        }
        if hd.number != n || hd.parent_hash.0 != h32(&parent) || hd.timestamp != qty(&blk["timestamp"]) || hd.gas_used != cum_gas || hd.transactions_root.0 != h32(s(&blk, "transactionsRoot")) || hd.logs_bloom.0 .0.to_vec() != block_bloom.to_vec() {
            self.fail(d, "raw-header-fields", format!("raw header of block {} decodes to other fields than the block", n), json!({"number": hd.number, "timestamp": hd.timestamp, "gas_used": hd.gas_used}));
            return false;
        }
        if dec.body.transactions.len() != listed.len() || rr.len() != listed.len() {
            self.fail(d, "raw-counts", format!("raw block {} has {} transactions and {} raw receipts, the block lists {}", n, dec.body.transactions.len(), rr.len(), listed.len()), json!({}));
            return false;
        }
        for (i, (env, tx)) in dec.body.transactions.iter().zip(txs_json.iter()).enumerate() {
            let input_ok = env.input().to_vec() == hexb(s(tx, "input"));
            let nonce_ok = env.nonce() == qty(&tx["nonce"]);
            let to_ok = match env.to() {
                Some(a) => tx["to"].as_str().map(|t| hexb(t) == a.0 .0.to_vec()).unwrap_or(a.is_zero()),
                None => tx["to"].is_null() || tx["to"].as_str().map(|t| hexb(t) == vec![0u8; 20]).unwrap_or(false),
            };
            if !input_ok || !nonce_ok || !to_ok {
                self.fail(d, "raw-tx-order", format!("transaction {} of raw block {} is not the transaction listed at that index", i, n), json!({"listed": tx, "raw_nonce": env.nonce(), "input_ok": input_ok, "nonce_ok": nonce_ok, "to_ok": to_ok}));
                return false;
            }
        }
        for (i, (raw, rc)) in rr.iter().zip(rcs_json.iter()).enumerate() {
            let b = hexb(raw.as_str().unwrap_or(""));
            let Ok(r) = ReceiptWithBloom::<alloy::consensus::Receipt>::decode(&mut b.as_slice()) else {
                self.fail(d, "raw-receipt-undecodable", format!("raw receipt {} of block {} does not decode", i, n), json!({}));
                return false;
            };
            let status_ok = r.receipt.status.coerce_status() == (s(rc, "status") == "0x1");
            let cum_ok = r.receipt.cumulative_gas_used == qty(&rc["cumulativeGasUsed"]);
            let logs_ok = r.receipt.logs.len() == rc["logs"].as_array().map(|a| a.len()).unwrap_or(0)
                && r.receipt.logs.iter().zip(rc["logs"].as_array().cloned().unwrap_or_default().iter()).all(|(a, b)| a.address.0 .0.to_vec() == hexb(s(b, "address")) && a.data.data.to_vec() == hexb(s(b, "data")) && a.data.topics().len() == b["topics"].as_array().map(|t| t.len()).unwrap_or(0));
            if !status_ok || !cum_ok || !logs_ok {
                self.fail(d, "raw-receipt-order", format!("raw receipt {} of block {} is not the receipt of the transaction listed at that index", i, n), json!({"receipt": rc, "status_ok": status_ok, "cumulative_ok": cum_ok, "logs_ok": logs_ok}));
                return false;
            }
        }
        self.rep.evaluations += 1;
        if listed.len() >= 2 && nlogs >= 2 {
            let mut hsh = Sha256::new();
            for l in &listed {
                hsh.update(l.as_bytes());
            }
            self.rep.nontrivial(hex::encode(&hsh.finalize()[..8]));
        }
        self.rep.count("blocks_checked", 1);
        self.rep.count("txs_checked", listed.len() as u64);
        self.rep.count("logs_checked", nlogs as u64);
        true
    }
}

/// The identical inscription repeated while invalid (allowance below intrinsic gas).
fn directed_invalid_repeat(ctx: &WorkerCtx, rep: &mut WorkerReport, net: &str) {
    let mut d = new_driver("C06");
    d.exec(Op::Init { hash: hist::ZERO_HASH.into(), ts: 5, height: 0 });
    let pk = "5120cccccccccccccccccccccccccccccccccccccccccccccccccccccccccccccccc".to_string();
    let hash = crate::hist::bh((0xabcdu64) as u64);
    let data = hist::hx(&[0x00]);
    for i in 0..2u64 {
        d.exec(Op::Call { pk: pk.clone(), target: Target::Addr("0x00000000000000000000000000000000000000aa".into()), data: Some(data.clone()), enc: Enc::Hex, ctx: Ctx { ts: 6, hash: hash.clone(), idx: i }, iid: format!("rep{}i0", i), len: 0, txid: hist::ZERO_HASH.into() });
    }
    d.exec(Op::Finalise { ts: 6, hash, count: 2 });
    let mut c = Checker { rep, seed: ctx.seed, case_seed: 0, net, failed: false };
    c.check_all(&mut d);
    drop_driver(d);
}

/// Blocks whose gas total does not fit in 64 bits: halting calls (INVALID burns the whole allowance)
/// with astronomically large reported lengths. Receipts and the block header must stay consistent.
fn directed_gas_overflow(ctx: &WorkerCtx, rep: &mut WorkerReport, net: &str) {
    let mut d = new_driver("C06");
    d.exec(Op::Init { hash: hist::ZERO_HASH.into(), ts: 5, height: 0 });
    let pk = "5120cdcdcdcdcdcdcdcdcdcdcdcdcdcdcdcdcdcdcdcdcdcdcdcdcdcdcdcdcdcdcdcd".to_string();
    let h1 = crate::hist::bh(0x6a50);
    let r = d.exec(Op::Deploy { pk: pk.clone(), data: hist::hx(&crate::asm::tool_init()), enc: Enc::Hex, ctx: Ctx { ts: 6, hash: h1.clone(), idx: 0 }, iid: "gas-tooli0".into(), len: 100_000, txid: hist::ZERO_HASH.into() });
    d.exec(Op::Finalise { ts: 6, hash: h1, count: 1 });
    let Some(tool) = hist::created_address(&r) else {
        drop_driver(d);
        return;
    };
    let half = u64::MAX / 2 / 12000 + 1; // two of these exceed 2^64 together
    let shapes: [&[u64]; 4] = [&[100_000, u64::MAX, 100_000], &[half, half, 100_000], &[u64::MAX, u64::MAX], &[half, 100_000, half, half]];
    for (b, lens) in shapes.iter().enumerate() {
        let h = crate::hist::bh(0x6a51 + b as u64);
        for (i, len) in lens.iter().enumerate() {
            let data = if *len > 1_000_000 { crate::asm::tool_call(crate::asm::OP_INVALID, &[], &[]) } else { crate::asm::tool_call(crate::asm::OP_INC, &[crate::asm::word_u64(2)], &[]) };
            d.exec(Op::Call { pk: pk.clone(), target: Target::Addr(tool.clone()), data: Some(hist::hx(&data)), enc: Enc::Hex, ctx: Ctx { ts: 7 + b as u64, hash: h.clone(), idx: i as u64 }, iid: format!("gas-{}-{}i0", b, i), len: *len, txid: hist::ZERO_HASH.into() });
        }
        let n = d.ntx;
        d.exec(Op::Finalise { ts: 7 + b as u64, hash: h, count: n });
        rep.nontrivial(format!("gas-overflow-block:{}:{}", net, b));
    }
    let mut c = Checker { rep, seed: ctx.seed, case_seed: 2, net, failed: false };
    c.check_all(&mut d);
    drop_driver(d);
}

/// Mainnet below the RLP-hash height: the transaction hash is the signing hash, which does not cover
/// the signature, so two signers sending the same (nonce, to, data) collide.
fn directed_signing_hash_collision(ctx: &WorkerCtx, rep: &mut WorkerReport, net: &str) {
    let mut d = new_driver("C06");
    d.exec(Op::Init { hash: hist::ZERO_HASH.into(), ts: 5, height: 0 });
    let chain = rpc::chain_id_for(net);
    let data = crate::asm::tool_init();
    for (i, tag) in [71u8, 72u8].iter().enumerate() {
        let s = hist::Signer::new(*tag);
        let raw = s.sign(Some(chain), 0, None, &data);
        let hash = crate::hist::bh((0xc011u64 + i as u64) as u64);
        d.exec(Op::Transact { raw: format!("0x{}", raw), enc: Enc::Hex, ctx: Ctx { ts: 6 + i as u64, hash: hash.clone(), idx: 0 }, iid: format!("coll{}i0", i), len: 100_000, txid: hist::ZERO_HASH.into() });
        let n = d.ntx;
        d.exec(Op::Finalise { ts: 6 + i as u64, hash, count: n });
    }
    let mut c = Checker { rep, seed: ctx.seed, case_seed: 1, net, failed: false };
    c.check_all(&mut d);
    drop_driver(d);
}

fn one_history(ctx: &WorkerCtx, rep: &mut WorkerReport, case_seed: u64, blocks: u64) {
    let (net, _) = net_for_shard(ctx.shard);
    let mut rng = crate::rng::Rng::new(case_seed);
    let mut w = World::new(case_seed, rpc::chain_id_for(net));
    let scale = scale_world(&mut w, case_seed, true, ctx.thorough());
    rep.set_add("scale_profiles", scale);
    w.profile.max_txs_per_block = 8;
    w.profile.p_empty_block = 12;
    w.profile.p_future_nonce = 35;
    let mut d = new_driver("C06");
    let mut reorged = false;
    for b in 0..blocks {
        // sometimes a half-built block is discarded (after a commit) and an empty block follows
        if d.height >= 1 && rng.chance(1, 6) {
            d.exec(Op::Commit);
            let blk = w.block_ctx(&d);
            for _ in 0..rng.range(1, 3) {
                w.gen_tx(&mut d, &blk);
            }
            d.exec(Op::Clear);
            if rng.chance(1, 2) {
                w.ts += 3;
                d.exec(Op::Mine { n: 1, ts: w.ts });
            }
        }
        w.gen_block(&mut d);
        if rng.chance(1, 4) {
            d.exec(Op::Commit);
        }
        if !reorged && b > blocks / 2 && rng.chance(1, 3) && d.height > 3 {
            let n = (d.height - rng.range(1, 3) as i64).max(0) as u64;
            d.exec(Op::Reorg { n });
            reorged = true;
        }
        let mut c = Checker { rep, seed: ctx.seed, case_seed, net, failed: false };
        if !c.check_all(&mut d) {
            drop_driver(d);
            return;
        }
        // contracts created below the outermost frame of a call (children of a Tool, the bridge's token
        // contracts) were not created by an inscription of their own: the contract -> inscription
        // index must not attribute them to the call that happened to create them (a receipt names a
        // contract only for a top-level deployment, and the index mirrors the receipts)
        let mut inner: Vec<String> = w.tools.iter().zip(w.tool_iids.iter()).filter(|(_, i)| i.as_str() == "none").map(|(t, _)| t.clone()).collect();
        for t in &w.tickers {
            let r = d.inst.call("eth_call", json!([{"to": hist::CONTROLLER, "data": hist::hx(&hist::abi_bytes_then_words("getTickerAddress(bytes)", t.to_lowercase().as_bytes(), &[]))}]));
            if let Some(x) = r.ok().and_then(|v| v.as_str()) {
                if x.len() >= 42 && x[x.len() - 40..] != *"0000000000000000000000000000000000000000" {
                    inner.push(format!("0x{}", &x[x.len() - 40..]));
                }
            }
        }
        for a in inner {
            // children created by a self-destructing / re-creating pattern may coincide with top-level addresses: only judge addresses no receipt names
            let named = d.chain_resp.iter().flatten().flat_map(|r| hist::receipts_in(r)).any(|rc| rc["contractAddress"].as_str().map(|x| x.eq_ignore_ascii_case(&a)).unwrap_or(false));
            if named {
                continue;
            }
            let m = d.inst.call("brc20_getInscriptionIdByContractAddress", json!([a]));
            c.rep.evaluations += 1;
            if !matches!(m.ok(), Some(Value::Null)) {
                c.fail(&mut d, "inner-contract-in-inscription-index", format!("contract {} was created inside a call (no receipt names it) but brc20_getInscriptionIdByContractAddress attributes it to {}", a, m.short()), json!({}));
                drop_driver(d);
                return;
            }
            c.rep.nontrivial(format!("inner-contract-not-indexed:{}", if a.len() > 0 { "seen" } else { "" }));
        }
    }
    if rep.samples.len() < 2 {
        let last: BTreeMap<String, Value> = d.chain.last().map(|ops| ops.iter().enumerate().map(|(i, o)| (format!("{}", i), json!(o.kind()))).collect()).unwrap_or_default();
        rep.sample(json!({"case_seed": case_seed, "network": net, "blocks": d.height + 1, "reorged": reorged, "last_block_ops": last}));
    }
    drop_driver(d);
}

pub fn worker(ctx: &WorkerCtx) -> WorkerReport {
    if ctx.shard == 6 {
        FORCE_HUGE.store(true, std::sync::atomic::Ordering::Relaxed);
    }
    let (net, traces) = net_for_shard(ctx.shard);
    crate::setup_env(net, traces);
    let mut rep = WorkerReport::default();
    if ctx.shard == 0 {
        directed_invalid_repeat(ctx, &mut rep, net);
    }
    if ctx.shard == 2 {
        directed_signing_hash_collision(ctx, &mut rep, net);
    }
    if (3..6).contains(&ctx.shard) {
        directed_gas_overflow(ctx, &mut rep, net);
    }
    let mut rng = ctx.rng();
    let (cases, blocks) = if ctx.thorough() { (8, 16) } else { (1, 12) };
    for _ in 0..cases {
        let cs = rng.next();
        one_history(ctx, &mut rep, cs, blocks);
    }
    rep
}
