//! C11 — concurrent readers and the indexer can never deadlock the server.
//!
//! Stage A: lock-discipline monitor (offline checker over the lock-event log of every method run
//! single-threaded). Besides every registered method with well-formed parameters, a call addressed by inscription id and a transaction replacing / repeating a waiting one are run. In the mid-block state one executing read (eth_call) is run through its 5-second give-up path. Stage B: each candidate is confirmed by a forced schedule in a child process
//! (pause at the nested acquisition, let a writer queue up, release, observe the wait-for cycle).
//! Stress: many readers + indexer + maintenance thread with delays injected at acquisitions.

use std::collections::{BTreeMap, BTreeSet, HashMap};
use std::process::Command;
use std::sync::atomic::{AtomicBool, AtomicU64, Ordering};
use std::sync::{Arc, Condvar, Mutex};
use std::thread::ThreadId;
use std::time::{Duration, Instant};

use brc20_prog::verif::lock_hooks::{set_lock_observer, LockEvent, Mode, Phase};
use serde::{Deserialize, Serialize};
use serde_json::{json, Value};

use super::c12::{template, Tmpl, PK};
use super::common::*;
use crate::asm;
use crate::hist::{self, Signer};
use crate::report::{Spec, WorkerReport};
use crate::rng::Rng;
use crate::rpc::{self, Inst, Resp};
use crate::WorkerCtx;

pub fn spec() -> Spec {
    Spec {
        prop: "C11",
        level: "exploration",
        rule: "Stage A: every registered method is run single-threaded in several engine states with the lock hooks recording attempt/acquired/released per thread; nested acquisitions are classified: same lock read-after-read (a candidate only if some RPC method write-acquires that lock), any other same-lock nesting (self-deadlock), and cycles in the lock-order graph over distinct locks. Stage B: each candidate is exhibited or dismissed by a forced schedule in a child process: T1 runs the method and is paused by the hook at the nested acquisition, T2 issues a method that write-acquires the same lock and is observed attempting it, T1 is released; if after 2 s both still have an outstanding attempt the wait-for cycle is a deadlock witness. Stress: 10 reader threads over the public methods, an indexer thread building blocks and a maintenance thread issuing commit/clearCaches/reorg, with random delays injected at lock attempts; every request must complete. Non-trivial = distinct nested-acquisition pairs classified + distinct (thread role, lock, mode) acquisition patterns and cross-thread orderings observed under stress.",
        assumptions: vec![
            "not all interleavings are enumerated: the discipline is checked on every acquisition pattern the RPC surface produces, each breach is exhibited by a forced schedule; a breach on a path the workload never drives is invisible".into(),
            "CONFIG is only written at start-up, so nested reads of it are not candidates".into(),
        ],
        exhaustive: false,
        min_nontrivial: 2,
    }
}

fn short_type(t: &str) -> String {
    // "brc20_prog::db::brc20_prog_database::Brc20ProgDatabase" -> "Brc20ProgDatabase"
    t.rsplit("::").next().unwrap_or(t).trim_end_matches('>').to_string()
}

fn site_str(l: &brc20_prog::verif::lock_hooks::LockId) -> String {
    format!("{}:{}", l.site.file().trim_start_matches("/repo/"), l.site.line())
}

#[derive(Clone, Debug, Serialize, Deserialize, PartialEq, Eq, PartialOrd, Ord)]
struct Nest {
    outer_lock: String,
    outer_mode: String,
    outer_site: String,
    inner_lock: String,
    inner_mode: String,
    inner_site: String,
    same_lock: bool,
}

#[derive(Default)]
struct Mon {
    held: HashMap<ThreadId, Vec<(usize, Mode, String, String)>>, // addr, mode, type, site
    attempts: HashMap<ThreadId, (usize, Mode, String, String, Instant)>,
    nests: BTreeMap<Nest, u64>,
    writers: BTreeSet<String>, // lock types that are write-acquired
    patterns: BTreeSet<String>,
    orderings: BTreeSet<String>,
    last_acq: Option<(String, String)>, // (role, lock type) of the previous acquisition (any thread)
    /// forced schedule: pause a thread attempting (lock type, Read) at inner_site while holding it
    pause_site: Option<(String, String)>,
    paused: bool,
    release: bool,
    /// a write attempt on this lock type by another thread has been seen while T1 is paused
    writer_waiting: Option<String>,
    events: u64,
}

struct Shared {
    m: Mutex<Mon>,
    cv: Condvar,
}

fn role_of() -> String {
    let n = std::thread::current().name().unwrap_or("").to_string();
    if n.starts_with("reader") {
        "reader".into()
    } else if n.starts_with("indexer") {
        "indexer".into()
    } else if n.starts_with("maint") {
        "maintenance".into()
    } else {
        "runtime".into()
    }
}

static DELAYS: AtomicBool = AtomicBool::new(false);
static DELAY_SEED: AtomicU64 = AtomicU64::new(1);

fn install(shared: Arc<Shared>) {
    set_lock_observer(Some(Arc::new(move |e: &LockEvent| {
        let ty = short_type(e.lock.type_name);
        let site = site_str(&e.lock);
        let mut g = shared.m.lock().unwrap_or_else(|p| p.into_inner());
        g.events += 1;
        match e.phase {
            Phase::Attempt => {
                let held = g.held.get(&e.thread).cloned().unwrap_or_default();
                for (addr, mode, hty, hsite) in &held {
                    let same = *addr == e.lock.addr;
                    let n = Nest { outer_lock: hty.clone(), outer_mode: format!("{:?}", mode), outer_site: hsite.clone(), inner_lock: ty.clone(), inner_mode: format!("{:?}", e.mode), inner_site: site.clone(), same_lock: same };
                    *g.nests.entry(n).or_insert(0) += 1;
                    if same && !(matches!(mode, Mode::Read) && matches!(e.mode, Mode::Read)) {
                        // write-after-anything / read-after-write on the same thread: proceeding would hang
                        drop(g);
                        panic!("verif: self-deadlock avoided: {:?} acquisition of {} at {} while holding it {:?} from {}", e.mode, ty, site, mode, hsite);
                    }
                }
                g.attempts.insert(e.thread, (e.lock.addr, e.mode, ty.clone(), site.clone(), Instant::now()));
                if matches!(e.mode, Mode::Write) {
                    g.writers.insert(ty.clone());
                    if g.paused {
                        g.writer_waiting = Some(ty.clone());
                        shared.cv.notify_all();
                    }
                }
                // forced schedule pause point
                if let Some((pty, psite)) = g.pause_site.clone() {
                    if pty == ty && psite == site && matches!(e.mode, Mode::Read) && held.iter().any(|h| h.0 == e.lock.addr) && !g.release {
                        g.paused = true;
                        shared.cv.notify_all();
                        while !g.release {
                            g = shared.cv.wait(g).unwrap_or_else(|p| p.into_inner());
                        }
                    }
                }
                drop(g);
                if DELAYS.load(Ordering::Relaxed) {
                    // xorshift on a shared seed: cheap pseudo-random delay injection at acquisitions
                    let mut x = DELAY_SEED.fetch_add(0x9E3779B97F4A7C15, Ordering::Relaxed);
                    x ^= x >> 31;
                    match x % 16 {
                        0 => std::thread::sleep(Duration::from_micros(200 + x % 800)),
                        1 | 2 => std::thread::yield_now(),
                        _ => {}
                    }
                }
            }
            Phase::Acquired => {
                g.attempts.remove(&e.thread);
                g.held.entry(e.thread).or_default().push((e.lock.addr, e.mode, ty.clone(), site.clone()));
                let role = role_of();
                g.patterns.insert(format!("{}:{}:{:?}", role, ty, e.mode));
                if let Some((prole, pty)) = g.last_acq.clone() {
                    if prole != role {
                        g.orderings.insert(format!("{}:{} -> {}:{}:{:?}", prole, pty, role, ty, e.mode));
                    }
                }
                g.last_acq = Some((role, ty));
            }
            Phase::Released => {
                if let Some(v) = g.held.get_mut(&e.thread) {
                    if let Some(pos) = v.iter().rposition(|h| h.0 == e.lock.addr && h.1 == e.mode) {
                        v.remove(pos);
                    }
                }
            }
        }
    })));
}

fn setup_engine(state: &str) -> Option<(Inst, Tmpl)> {
    let dir = rpc::fresh_dir("C11");
    let mut inst = Inst::open(&dir).ok()?;
    inst.timeout = Duration::from_secs(20);
    let mut st = Tmpl { tool: "0x00000000000000000000000000000000000000aa".into(), tx_hash: hist::ZERO_HASH.into(), block_hash: hist::ZERO_HASH.into(), fresh_hash: crate::hist::bh((0xf11u64) as u64), raw_tx: "0x".into(), next_height: 0, n: 0 };
    if state == "empty" {
        return Some((inst, st));
    }
    inst.call("brc20_initialise", json!({"genesis_hash": hist::ZERO_HASH, "genesis_timestamp": 1, "genesis_height": 0}));
    let bh = crate::hist::bh((0xc11u64) as u64);
    let r = inst.call("brc20_deploy", json!({"from_pkscript": PK, "data": hist::hx(&asm::tool_init()), "timestamp": 2, "hash": bh, "tx_idx": 0, "inscription_id": "c12-setup-tool", "inscription_byte_len": 100000, "op_return_tx_id": hist::ZERO_HASH}));
    st.tool = hist::created_address(&r)?;
    st.tx_hash = hist::receipts_in(&r)[0]["transactionHash"].as_str()?.to_string();
    st.block_hash = bh.clone();
    inst.call("brc20_deposit", json!({"to_pkscript": PK, "ticker": "ordi", "amount": "0x100", "timestamp": 2, "hash": bh, "tx_idx": 1, "inscription_id": "c11-dep"}));
    inst.call("brc20_finaliseBlock", json!({"timestamp": 2, "hash": bh, "block_tx_count": 2}));
    inst.call("brc20_mine", json!({"block_count": 2, "timestamp": 3}));
    let s = Signer::new(61);
    st.raw_tx = format!("0x{}", s.sign(Some(rpc::chain_id_for("regtest")), 0, Some(hist::parse_addr(&st.tool)), &asm::tool_call(asm::OP_INC, &[asm::word_u64(2)], &[])));
    st.next_height = 4;
    if state == "committed" {
        inst.call("brc20_commitToDatabase", json!([]));
    }
    if state == "mid-block" {
        // parked transaction + one executed transaction in an open block
        let s2 = Signer::new(62);
        let raw = s2.sign(Some(rpc::chain_id_for("regtest")), 1, Some(hist::parse_addr(&st.tool)), &asm::tool_call(asm::OP_INC, &[asm::word_u64(2)], &[]));
        let h = crate::hist::bh((0x11b10cu64) as u64);
        inst.call("brc20_transact", json!({"raw_tx_data": format!("0x{}", raw), "timestamp": 9, "hash": h, "tx_idx": 0, "inscription_id": "c11-park", "inscription_byte_len": 100000, "op_return_tx_id": hist::ZERO_HASH}));
        inst.call("brc20_deposit", json!({"to_pkscript": PK, "ticker": "ordi", "amount": "0x1", "timestamp": 9, "hash": h, "tx_idx": 0, "inscription_id": "c11-mid"}));
    }
    Some((inst, st))
}

#[derive(Serialize, Deserialize, Default)]
struct ChildOut {
    nests: Vec<(Nest, u64, Vec<String>)>,
    writers: Vec<String>,
    self_deadlocks: Vec<String>,
    exhibited: Vec<Value>,
    dismissed: Vec<Value>,
    methods_run: u64,
    events: u64,
    patterns: Vec<String>,
    orderings: Vec<String>,
    stress_requests: u64,
    stress_stuck: Vec<Value>,
}

/// Stage A in this process.
fn stage_a(shared: &Arc<Shared>, out: &mut ChildOut) -> BTreeMap<Nest, (String, String, Value)> {
    // nest -> (state, method, params) that produced it first
    let mut origin: BTreeMap<Nest, (String, String, Value)> = BTreeMap::new();
    let mut by_method: BTreeMap<Nest, BTreeSet<String>> = BTreeMap::new();
    for state in ["empty", "initialised", "committed", "mid-block"] {
        let Some((mut inst, mut st)) = setup_engine(state) else { continue };
        let mut names = inst.method_names();
        // variants of methods whose rarely taken branches take locks differently: a call addressed by
        // inscription id, a transaction replacing / repeating one that waits in the pool
        if state != "empty" {
            names.push("brc20_call#by-inscription-id".to_string());
        }
        if state == "mid-block" {
            names.push("brc20_transact#replace-waiting".to_string());
            names.push("brc20_transact#repeat-waiting".to_string());
        }
        for m in &names {
            st.n += 1;
            st.fresh_hash = crate::hist::bh((0xf11_0000u64 + st.n) as u64);
            // executing reads wait up to 5 s for an open block and then give up: one of them is run
            // through that give-up path (its lock pattern is part of the discipline), the others are
            // skipped because they share the code and each would cost another 5 s
            if state == "mid-block" && matches!(m.as_str(), "eth_callMany" | "eth_estimateGas" | "eth_estimateGasMany" | "brc20_balance") {
                continue;
            }
            let (m, p): (&String, Value) = match m.as_str() {
                "brc20_call#by-inscription-id" => {
                    let mut p = template("brc20_call", &st).unwrap_or(json!({}));
                    if let Some(o) = p.as_object_mut() {
                        o.remove("contract_address");
                        o.insert("contract_inscription_id".into(), json!("c12-setup-tool"));
                        if state == "mid-block" {
                            o.insert("timestamp".into(), json!(9));
                            o.insert("hash".into(), json!(crate::hist::bh(0x11b10c)));
                            o.insert("tx_idx".into(), json!(1));
                        }
                    }
                    (m, p)
                }
                "brc20_transact#replace-waiting" | "brc20_transact#repeat-waiting" => {
                    // signer 62 has nonce 1 waiting (see setup_engine): the same nonce again
                    let s2 = Signer::new(62);
                    let inc = if m.ends_with("repeat-waiting") { 2 } else { 3 };
                    let raw = s2.sign(Some(rpc::chain_id_for("regtest")), 1, Some(hist::parse_addr(&st.tool)), &asm::tool_call(asm::OP_INC, &[asm::word_u64(inc)], &[]));
                    (m, json!({"raw_tx_data": format!("0x{}", raw), "timestamp": 9, "hash": crate::hist::bh(0x11b10c), "tx_idx": 1, "inscription_id": format!("c11-again-{}", st.n), "inscription_byte_len": 100000, "op_return_tx_id": hist::ZERO_HASH}))
                }
                _ => {
                    let Some(p) = template(m, &st) else { continue };
                    (m, p)
                }
            };
            let before: BTreeMap<Nest, u64> = shared.m.lock().unwrap().nests.clone();
            let r = inst.call(m.split('#').next().unwrap_or(m), p.clone());
            out.methods_run += 1;
            if let Resp::Panic(msg) = &r {
                if msg.contains("self-deadlock avoided") {
                    out.self_deadlocks.push(format!("{} in state {}: {}", m, state, msg));
                }
                // the engine may be unusable now
                break;
            }
            let after: BTreeMap<Nest, u64> = shared.m.lock().unwrap().nests.clone();
            for (n, c) in after {
                if before.get(&n).cloned().unwrap_or(0) < c {
                    by_method.entry(n.clone()).or_default().insert(m.clone());
                    origin.entry(n).or_insert((state.to_string(), m.split('#').next().unwrap_or(m).to_string(), p.clone()));
                }
            }
            // undo open blocks left by templates, so the next method starts from a boundary
            if state != "mid-block" && matches!(m.as_str(), "brc20_deploy" | "brc20_call" | "brc20_deposit" | "brc20_withdraw" | "brc20_transact") {
                inst.call("brc20_clearCaches", json!([]));
                if state == "initialised" {
                    // nothing was committed: rebuild the state
                    let d = inst.dir.clone();
                    inst.close();
                    rpc::remove_dir(&d);
                    let Some((i2, s2)) = setup_engine(state) else { break };
                    inst = i2;
                    let n = st.n;
                    st = s2;
                    st.n = n;
                }
            }
        }
        let d = inst.dir.clone();
        drop(inst);
        rpc::remove_dir(&d);
    }
    let g = shared.m.lock().unwrap();
    out.nests = g.nests.iter().map(|(n, c)| (n.clone(), *c, by_method.get(n).map(|s| s.iter().cloned().collect()).unwrap_or_default())).collect();
    out.writers = g.writers.iter().cloned().collect();
    out.events = g.events;
    origin
}

/// Stage B for one same-lock read-after-read candidate.
fn stage_b(shared: &Arc<Shared>, n: &Nest, origin: &(String, String, Value)) -> (bool, Value) {
    let (state, method, params) = origin;
    let Some((inst, _st)) = setup_engine(state) else { return (false, json!({"error": "setup"})) };
    let methods = inst.methods();
    {
        let mut g = shared.m.lock().unwrap();
        g.pause_site = Some((n.inner_lock.clone(), n.inner_site.clone()));
        g.paused = false;
        g.release = false;
        g.writer_waiting = None;
    }
    let m1 = methods.clone();
    let (meth, par) = (method.clone(), params.clone());
    let t1_done = Arc::new(AtomicBool::new(false));
    let d1 = t1_done.clone();
    std::thread::Builder::new()
        .name("stageb-t1".into())
        .spawn(move || {
            let _ = rpc::call_direct(&m1, &meth, par);
            d1.store(true, Ordering::SeqCst);
        })
        .unwrap();
    // wait until T1 is paused at the nested acquisition
    let t0 = Instant::now();
    {
        let mut g = shared.m.lock().unwrap();
        while !g.paused && t0.elapsed() < Duration::from_secs(10) {
            g = shared.cv.wait_timeout(g, Duration::from_millis(100)).unwrap().0;
        }
        if !g.paused {
            g.pause_site = None;
            g.release = true;
            shared.cv.notify_all();
            return (false, json!({"dismissed": "the nested acquisition was not reached again"}));
        }
    }
    // T2: a writer of the same lock
    let writer_method = if n.inner_lock == "LastBlockInfo" { ("brc20_clearCaches", json!([])) } else { ("eth_call", json!([{"to": "0x00000000000000000000000000000000000000aa", "data": "0x00"}])) };
    let m2 = methods.clone();
    let t2_done = Arc::new(AtomicBool::new(false));
    let d2 = t2_done.clone();
    let wm = writer_method.clone();
    std::thread::Builder::new()
        .name("stageb-t2".into())
        .spawn(move || {
            let _ = rpc::call_direct(&m2, wm.0, wm.1);
            d2.store(true, Ordering::SeqCst);
        })
        .unwrap();
    let t0 = Instant::now();
    {
        let mut g = shared.m.lock().unwrap();
        while g.writer_waiting.as_deref() != Some(n.inner_lock.as_str()) && t0.elapsed() < Duration::from_secs(10) {
            g = shared.cv.wait_timeout(g, Duration::from_millis(100)).unwrap().0;
        }
        let seen = g.writer_waiting.clone();
        // give the writer a moment to actually enqueue on the lock, then release T1
        drop(g);
        std::thread::sleep(Duration::from_millis(300));
        let mut g = shared.m.lock().unwrap();
        g.release = true;
        g.pause_site = None;
        shared.cv.notify_all();
        if seen.is_none() {
            drop(g);
            std::thread::sleep(Duration::from_millis(500));
            return (false, json!({"dismissed": "no writer attempt on the lock was observed"}));
        }
    }
    std::thread::sleep(Duration::from_secs(2));
    let stuck1 = !t1_done.load(Ordering::SeqCst);
    let stuck2 = !t2_done.load(Ordering::SeqCst);
    let g = shared.m.lock().unwrap();
    let waiting: Vec<Value> = g.attempts.iter().map(|(t, (_, mode, ty, site, since))| json!({"thread": format!("{:?}", t), "waits_for": ty, "mode": format!("{:?}", mode), "at": site, "for_ms": since.elapsed().as_millis() as u64})).collect();
    let holding: Vec<Value> = g.held.iter().filter(|(_, v)| !v.is_empty()).map(|(t, v)| json!({"thread": format!("{:?}", t), "holds": v.iter().map(|h| format!("{} {:?} from {}", h.2, h.1, h.3)).collect::<Vec<_>>()})).collect();
    let deadlock = stuck1 && stuck2 && waiting.len() >= 2;
    (deadlock, json!({"method": method, "engine_state": state, "params": params, "nested": n, "writer_method": writer_method.0, "t1_stuck": stuck1, "t2_stuck": stuck2, "waiting": waiting, "holding": holding}))
}

fn stress(shared: &Arc<Shared>, out: &mut ChildOut, secs: u64, seed: u64) {
    let Some((inst, st)) = setup_engine("committed") else { return };
    let methods = inst.methods();
    let names = inst.method_names();
    let deny: BTreeSet<String> = brc20_prog::verif::INDEXER_METHODS.iter().cloned().collect();
    let public: Vec<String> = names.iter().filter(|m| !deny.contains(*m)).cloned().collect();
    DELAYS.store(true, Ordering::SeqCst);
    let stop = Arc::new(AtomicBool::new(false));
    let count = Arc::new(AtomicU64::new(0));
    let stuck: Arc<Mutex<Vec<Value>>> = Arc::new(Mutex::new(Vec::new()));
    let mut handles = Vec::new();
    let spawn = |name: String, f: Box<dyn FnOnce() + Send>| std::thread::Builder::new().name(name).spawn(f).unwrap();
    for r in 0..10u64 {
        let (m, st, public, stop, count, stuck) = (methods.clone(), st.clone(), public.clone(), stop.clone(), count.clone(), stuck.clone());
        handles.push(spawn(format!("reader-{}", r), Box::new(move || {
            let mut rng = Rng::new(seed ^ (r + 1) * 77);
            while !stop.load(Ordering::SeqCst) {
                let meth = rng.pick(&public).clone();
                let Some(p) = template(&meth, &st) else { continue };
                let _ = rpc::call_direct(&m, &meth, p);
                count.fetch_add(1, Ordering::Relaxed);
            }
        })));
    }
    {
        let (m, st, stop, count, stuck) = (methods.clone(), st.clone(), stop.clone(), count.clone(), stuck.clone());
        handles.push(spawn("indexer".into(), Box::new(move || {
            let mut rng = Rng::new(seed ^ 0x1d);
            let mut n = 0u64;
            while !stop.load(Ordering::SeqCst) {
                n += 1;
                let h = crate::hist::bh((0x57_0000u64 + n) as u64);
                let ts = 100 + n;
                let k = rng.range(0, 3);
                let mut cnt = 0;
                for i in 0..k {
                    let p = json!({"from_pkscript": PK, "contract_address": st.tool, "data": hist::hx(&asm::tool_call(asm::OP_INC, &[asm::word_u64(1)], &[])), "timestamp": ts, "hash": h, "tx_idx": cnt, "inscription_id": format!("st-{}-{}", n, i), "inscription_byte_len": 100000, "op_return_tx_id": hist::ZERO_HASH});
                    let r = rpc::call_direct(&m, "brc20_call", p);
                    count.fetch_add(1, Ordering::Relaxed);
                    if r.is_ok() {
                        cnt += 1;
                    }
                }
                let r = rpc::call_direct(&m, "brc20_finaliseBlock", json!({"timestamp": ts, "hash": h, "block_tx_count": cnt}));
                count.fetch_add(1, Ordering::Relaxed);
                if !r.is_ok() {
                    // a racing clearCaches/reorg may have reset the block: start over
                    let _ = rpc::call_direct(&m, "brc20_clearCaches", json!([]));
                }
            }
        })));
    }
    {
        let (m, stop, count, stuck) = (methods.clone(), stop.clone(), count.clone(), stuck.clone());
        handles.push(spawn("maint".into(), Box::new(move || {
            let mut rng = Rng::new(seed ^ 0x3a);
            while !stop.load(Ordering::SeqCst) {
                std::thread::sleep(Duration::from_millis(rng.range(1, 15)));
                let (meth, p) = match rng.below(4) {
                    0 | 1 => ("brc20_commitToDatabase", json!([])),
                    2 => ("brc20_clearCaches", json!([])),
                    _ => ("brc20_reorg", json!({"latest_valid_block_number": 3})),
                };
                let _ = rpc::call_direct(&m, meth, p);
                count.fetch_add(1, Ordering::Relaxed);
            }
        })));
    }
    let t0 = Instant::now();
    while t0.elapsed() < Duration::from_secs(secs) && stuck.lock().unwrap().is_empty() {
        std::thread::sleep(Duration::from_millis(100));
        // a lock attempt outstanding for more than 10 s: some thread is blocked for good
        let g = shared.m.lock().unwrap();
        for (t, (_, mode, ty, site, since)) in g.attempts.iter() {
            if since.elapsed() > Duration::from_secs(10) {
                stuck.lock().unwrap().push(json!({"thread": format!("{:?}", t), "waits_for": ty, "mode": format!("{:?}", mode), "at": site, "for_ms": since.elapsed().as_millis() as u64}));
            }
        }
    }
    stop.store(true, Ordering::SeqCst);
    // let the client threads finish their current request; a thread that cannot is blocked on a lock
    let t1 = Instant::now();
    while stuck.lock().unwrap().is_empty() && handles.iter().any(|h| !h.is_finished()) && t1.elapsed() < Duration::from_secs(40) {
        std::thread::sleep(Duration::from_millis(100));
        let g = shared.m.lock().unwrap();
        for (t, (_, mode, ty, site, since)) in g.attempts.iter() {
            if since.elapsed() > Duration::from_secs(10) {
                stuck.lock().unwrap().push(json!({"thread": format!("{:?}", t), "waits_for": ty, "mode": format!("{:?}", mode), "at": site, "for_ms": since.elapsed().as_millis() as u64}));
            }
        }
    }
    if stuck.lock().unwrap().is_empty() && handles.iter().any(|h| !h.is_finished()) {
        stuck.lock().unwrap().push(json!({"note": "client threads did not finish within 40 s after the stop signal"}));
    }
    if stuck.lock().unwrap().is_empty() {
        for h in handles {
            let _ = h.join();
        }
    } else {
        // wait-for snapshot
        let g = shared.m.lock().unwrap();
        let waiting: Vec<Value> = g.attempts.iter().map(|(t, (_, mode, ty, site, since))| json!({"thread": format!("{:?}", t), "waits_for": ty, "mode": format!("{:?}", mode), "at": site, "for_ms": since.elapsed().as_millis() as u64})).collect();
        let holding: Vec<Value> = g.held.iter().filter(|(_, v)| !v.is_empty()).map(|(t, v)| json!({"thread": format!("{:?}", t), "holds": v.iter().map(|h| format!("{} {:?} from {}", h.2, h.1, h.3)).collect::<Vec<_>>()})).collect();
        stuck.lock().unwrap().push(json!({"waiting": waiting, "holding": holding}));
    }
    DELAYS.store(false, Ordering::SeqCst);
    out.stress_requests = count.load(Ordering::SeqCst);
    out.stress_stuck = stuck.lock().unwrap().clone();
    let g = shared.m.lock().unwrap();
    out.patterns = g.patterns.iter().cloned().collect();
    out.orderings = g.orderings.iter().take(400).cloned().collect();
    drop(g);
    // the instance directory is removed by the parent (process work dir)
    std::mem::forget(inst);
}

/// Child process: does the work, writes its result, exits hard (threads may be stuck).
pub fn child(ctx: &WorkerCtx) {
    crate::setup_env("regtest", true);
    let outfile = ctx.extra[1].clone();
    let mode = ctx.extra[2].clone();
    let shared = Arc::new(Shared { m: Mutex::new(Mon::default()), cv: Condvar::new() });
    install(shared.clone());
    let mut out = ChildOut::default();
    let write = |out: &ChildOut| {
        let _ = std::fs::write(&outfile, serde_json::to_string(out).unwrap());
    };
    if mode == "discipline" {
        let origin = stage_a(&shared, &mut out);
        write(&out);
        let cands: Vec<Nest> = out.nests.iter().map(|x| x.0.clone()).filter(|n| n.same_lock && n.outer_mode == "Read" && n.inner_mode == "Read" && out.writers.contains(&n.inner_lock)).collect();
        for n in cands {
            let Some(o) = origin.get(&n) else { continue };
            let (dead, detail) = stage_b(&shared, &n, o);
            if dead {
                out.exhibited.push(detail);
                write(&out);
                // threads are blocked for good: no further schedules in this process
                break;
            } else {
                out.dismissed.push(detail);
            }
            write(&out);
        }
    } else {
        let secs: u64 = ctx.extra.get(3).and_then(|s| s.parse().ok()).unwrap_or(10);
        stress(&shared, &mut out, secs, ctx.seed ^ ctx.shard);
        write(&out);
    }
    rpc::remove_dir(&rpc::process_work_dir("C11"));
    unsafe { libc::_exit(0) };
}

fn run_child(ctx: &WorkerCtx, mode: &str, extra: &[String], timeout: Duration) -> Option<ChildOut> {
    let work = rpc::fresh_dir("C11");
    let outfile = work.join("child.json");
    let exe = std::env::current_exe().unwrap();
    let mut cmd = Command::new(exe);
    cmd.args(["worker", "C11", &ctx.tier, &ctx.seed.to_string(), &ctx.shard.to_string(), &ctx.nshards.to_string(), work.join("unused.json").to_str().unwrap(), "child", outfile.to_str().unwrap(), mode]);
    cmd.args(extra);
    cmd.stdout(std::process::Stdio::null()).stderr(std::process::Stdio::null());
    let mut ch = cmd.spawn().ok()?;
    let t0 = Instant::now();
    loop {
        match ch.try_wait() {
            Ok(Some(_)) => break,
            Ok(None) => {
                if t0.elapsed() > timeout {
                    let _ = ch.kill();
                    let _ = ch.wait();
                    break;
                }
                std::thread::sleep(Duration::from_millis(50));
            }
            Err(_) => break,
        }
    }
    let out = std::fs::read_to_string(&outfile).ok().and_then(|s| serde_json::from_str(&s).ok());
    rpc::remove_dir(&work);
    out
}

pub fn worker(ctx: &WorkerCtx) -> WorkerReport {
    if ctx.extra.first().map(|s| s.as_str()) == Some("child") {
        child(ctx);
        unreachable!();
    }
    let mut rep = WorkerReport::default();
    if ctx.shard == 0 {
        // discipline + forced schedules; repeated until no new deadlock is exhibited (each exhibited
        // deadlock ends its child process)
        let mut seen_exhibits: BTreeSet<String> = BTreeSet::new();
        for _round in 0..4 {
            let Some(out) = run_child(ctx, "discipline", &[], Duration::from_secs(240)) else {
                rep.inconclusive("discipline child produced no result");
                break;
            };
            rep.evaluations += out.methods_run;
            rep.count("lock_events", out.events);
            rep.count("methods_run", out.methods_run);
            for (n, c, methods) in &out.nests {
                rep.nontrivial(format!("nest:{}:{}@{} -> {}:{}@{}", n.outer_lock, n.outer_mode, n.outer_site, n.inner_lock, n.inner_mode, n.inner_site));
                rep.count("nested_acquisitions_observed", *c);
                if n.same_lock {
                    rep.notes.push(format!("same-lock nesting {} {}@{} -> {}@{} (methods {:?}) writer-among-rpc-methods={}", n.inner_lock, n.outer_mode, n.outer_site, n.inner_mode, n.inner_site, methods.iter().take(6).collect::<Vec<_>>(), out.writers.contains(&n.inner_lock)));
                }
            }
            // lock-order cycles over distinct locks
            // edge: (held lock, held mode) -> (wanted lock, wanted mode), with the sites
            let mut edges: BTreeSet<(String, String, String, String, String, String)> = BTreeSet::new();
            for (n, _, _) in &out.nests {
                if !n.same_lock && n.outer_lock != n.inner_lock {
                    edges.insert((n.outer_lock.clone(), n.outer_mode.clone(), n.inner_lock.clone(), n.inner_mode.clone(), n.outer_site.clone(), n.inner_site.clone()));
                }
            }
            let mut reported: BTreeSet<(String, String)> = BTreeSet::new();
            for (a, am, b, bm, s1, s2) in &edges {
                for (b2, bm2, a2, am2, s3, s4) in &edges {
                    // T1 holds a(am) wants b(bm); T2 holds b(bm2) wants a(am2): blocks for good iff the two
                    // uses of each lock conflict (at least one of them is a write)
                    if a == a2 && b == b2 && a < b && (am == "Write" || am2 == "Write") && (bm == "Write" || bm2 == "Write") && reported.insert((a.clone(), b.clone())) {
                        violation(&mut rep, "C11", ctx.seed, &format!("lock-order-cycle:{}<->{}", a, b),
                            format!("locks {} and {} are acquired in both orders with conflicting modes: {} {} held at {} while {} {} is requested at {}, and {} {} held at {} while {} {} is requested at {}", a, b, a, am, s1, b, bm, s2, b, bm2, s3, a, am2, s4),
                            json!({"thread1": {"holds": [a, am, s1], "wants": [b, bm, s2]}, "thread2": {"holds": [b2, bm2, s3], "wants": [a2, am2, s4]}}));
                    }
                }
            }
            for s in &out.self_deadlocks {
                violation(&mut rep, "C11", ctx.seed, "self-deadlock", format!("a handler re-acquires a lock it holds in a conflicting mode: {}", s), json!({}));
            }
            let mut new_exhibit = false;
            for e in &out.exhibited {
                let n = &e["nested"];
                let sig = format!("deadlock:{}:{}->{}", n["inner_lock"].as_str().unwrap_or(""), n["outer_site"].as_str().unwrap_or(""), n["inner_site"].as_str().unwrap_or(""));
                if seen_exhibits.insert(sig.clone()) {
                    new_exhibit = true;
                    violation(&mut rep, "C11", ctx.seed, &sig,
                        format!("forced schedule: {} holds a read lock on {} (from {}) and re-acquires it at {}; with {} queued as a writer in between, both threads block forever", e["method"].as_str().unwrap_or(""), n["inner_lock"].as_str().unwrap_or(""), n["outer_site"].as_str().unwrap_or(""), n["inner_site"].as_str().unwrap_or(""), e["writer_method"].as_str().unwrap_or("")),
                        e.clone());
                }
            }
            rep.count("candidates_dismissed", out.dismissed.len() as u64);
            if rep.samples.len() < 2 {
                rep.sample(json!({"stage": "discipline", "methods_run": out.methods_run, "lock_events": out.events, "write_acquired_locks": out.writers, "some_nested": out.nests.iter().take(4).map(|x| json!({"outer": format!("{}:{}@{}", x.0.outer_lock, x.0.outer_mode, x.0.outer_site), "inner": format!("{}:{}@{}", x.0.inner_lock, x.0.inner_mode, x.0.inner_site), "count": x.1})).collect::<Vec<_>>()}));
            }
            if !new_exhibit {
                break;
            }
        }
    } else {
        let secs = if ctx.thorough() { 60 } else { 6 };
        let Some(out) = run_child(ctx, "stress", &[secs.to_string()], Duration::from_secs(secs + 120)) else {
            rep.inconclusive("stress child produced no result");
            return rep;
        };
        rep.evaluations += out.stress_requests;
        rep.count("stress_requests", out.stress_requests);
        for p in &out.patterns {
            rep.nontrivial(format!("pattern:{}", p));
        }
        for o in &out.orderings {
            rep.nontrivial(format!("ordering:{}", o));
        }
        if !out.stress_stuck.is_empty() {
            violation(&mut rep, "C11", ctx.seed, "stress-request-stuck", format!("under concurrent load a request did not complete within 30 s: {}", out.stress_stuck[0]), json!({"stuck": out.stress_stuck}));
        }
        rep.sample(json!({"stage": "stress", "seconds": secs, "requests": out.stress_requests, "acquisition_patterns": out.patterns, "some_cross_thread_orderings": out.orderings.iter().take(6).collect::<Vec<_>>()}));
    }
    rep
}
