//! C15 — inscription payload decoding is lossless, bounded and encoding-independent.

use std::panic::{catch_unwind, AssertUnwindSafe};

use alloy::primitives::Bytes;
use base64::prelude::BASE64_STANDARD_NO_PAD;
use base64::Engine;
use brc20_prog::types::Base64Bytes;
use serde_json::json;

use super::common::*;
use crate::asm;
use crate::hist::{self, Ctx, Enc, Op, Target};
use crate::obs::{self, ObsMode};
use crate::report::{Spec, WorkerReport};
use crate::rng::Rng;
use crate::rpc;
use crate::WorkerCtx;

pub const LIMIT: usize = 1024 * 1024;

pub fn spec() -> Spec {
    Spec {
        prop: "C15",
        level: "exploration",
        rule: "Direct calls of the published encoder (Base64Bytes::from_bytes) and the server-side decoder on generated payloads (empty, 1 byte, random, zero-heavy, repetitive, real bytecode; lengths around 0 and around 2^20), with 0-4 '=' appended: decode(encode(b)) == b. Hand-packed raw/nada/zstd payloads, unknown prefixes, truncated frames and bombs (declared and undeclared size > 1 MiB, nada runs beyond the limit): never a panic, never more than 1 MiB, never a wrong Some. Twin instances fed the same deploy/call/transact once through the hex field and once through the base64 field must return identical receipts, transactions, traces and Obs. Non-trivial = payload actually compressed (prefix 1 or 2) or within 64 bytes of the limit, and twin submissions that executed; distinct by (class, prefix, length bucket).",
        assumptions: vec!["where the published encoder itself refuses (incompressible data that does not fit its 1 MiB zstd buffer) the round-trip law is vacuous and counted as such".into()],
        exhaustive: false,
        min_nontrivial: 2,
    }
}

fn decode(s: &str) -> Result<Option<Bytes>, String> {
    crate::crashlabel::set(&format!("payload-decoder on {} base64 characters starting {}", s.len(), &s[..s.len().min(24)]));
    let s2 = s.to_string();
    catch_unwind(AssertUnwindSafe(|| brc20_prog::verif::decode_bytes_from_inscription_data(&s2))).map_err(|_| {
        crate::rpc::panics_since(0).last().map(|p| format!("{} @ {}", p.message, p.location)).unwrap_or_else(|| "panic".into())
    })
}

pub fn payload(rng: &mut Rng, class: u64, len: usize) -> Vec<u8> {
    match class {
        0 => rng.bytes(len),
        1 => vec![0u8; len],
        2 => {
            // zero-heavy: mostly zeros with scattered random bytes (nada-friendly)
            let mut v = vec![0u8; len];
            let mut i = rng.below(40) as usize;
            while i < len {
                v[i] = (rng.next() & 0xff) as u8;
                i += 1 + rng.below(60) as usize;
            }
            v
        }
        3 => {
            let n = 1 + rng.below(12) as usize;
            let pat = rng.bytes(n);
            pat.iter().cycle().take(len).cloned().collect()
        }
        4 => {
            let code = asm::tool_init();
            code.iter().cycle().take(len).cloned().collect()
        }
        5 => vec![0xffu8; len],
        7 => {
            // random bytes followed by a long run of zeros: the base64 text ends in 'A's
            let mut v = rng.bytes(len - len / 3);
            v.resize(len, 0);
            v
        }
        8 => {
            // zero runs around the 8- and 16-bit run-length boundaries (254..258, 65534..65538)
            let mut v = Vec::with_capacity(len);
            while v.len() < len {
                let run = *rng.pick(&[254usize, 255, 256, 257, 258, 65_534, 65_535, 65_536, 65_537, 3]);
                for _ in 0..run.min(len - v.len()) {
                    v.push(0);
                }
                if v.len() < len {
                    v.push(1 + (rng.next() % 254) as u8);
                }
            }
            v
        }
        9 => {
            // bytes that look like codec prefixes and base64 padding at both ends
            let mut v = rng.bytes(len);
            for (i, b) in [0u8, 1, 2, 3, b'=', b'A'].iter().enumerate() {
                if i < len {
                    v[i] = *b;
                }
                if len > 12 {
                    v[len - 1 - i] = *b;
                }
            }
            v
        }
        _ => {
            // zero runs separated by single non-zero bytes: nada beats zstd on short inputs
            let mut v = Vec::with_capacity(len);
            while v.len() < len {
                let run = 1 + rng.below(30) as usize;
                for _ in 0..run.min(len - v.len()) {
                    v.push(0);
                }
                if v.len() < len {
                    v.push(1 + (rng.next() % 254) as u8);
                }
            }
            v
        }
    }
}

fn class_name(c: u64) -> &'static str {
    ["random", "zeros", "zero-heavy", "repetitive", "bytecode", "all-ff", "zero-runs", "trailing-zeros", "run-length-boundaries", "prefix-and-padding-lookalikes"][c as usize % 10]
}

fn bucket(len: usize) -> String {
    if len == 0 {
        "0".into()
    } else if len <= 2 {
        "1-2".into()
    } else if len + 64 >= LIMIT && len <= LIMIT {
        format!("limit-{}", LIMIT - len)
    } else if len > LIMIT {
        "over".into()
    } else if len < 1024 {
        "<1k".into()
    } else if len < 65536 {
        "<64k".into()
    } else {
        "<1M".into()
    }
}

fn roundtrip(rep: &mut WorkerReport, seed: u64, class: u64, b: &[u8]) {
    rep.evaluations += 1;
    let enc = catch_unwind(AssertUnwindSafe(|| Base64Bytes::from_bytes(Bytes::from(b.to_vec()))));
    let s = match enc {
        Ok(Ok(s)) => s.to_string(),
        Ok(Err(_)) => {
            rep.count("encoder_refused(vacuous)", 1);
            return;
        }
        Err(_) => {
            violation(rep, "C15", seed, "encoder-panic", format!("the published encoder panicked on a {} payload of {} bytes", class_name(class), b.len()), json!({"class": class_name(class), "len": b.len()}));
            return;
        }
    };
    let prefix = BASE64_STANDARD_NO_PAD.decode(&s).ok().and_then(|d| d.first().cloned()).unwrap_or(255);
    if prefix == 1 || prefix == 2 || b.len() + 64 >= LIMIT {
        rep.nontrivial(format!("{}:p{}:{}", class_name(class), prefix, bucket(b.len())));
    }
    rep.set_add("prefixes_chosen_by_encoder", format!("{}", prefix));
    for pad in 0..=4usize {
        let t = format!("{}{}", s, "=".repeat(pad));
        match decode(&t) {
            Ok(Some(d)) if d.as_ref() == b => {}
            Ok(other) => {
                let got = other.map(|d| d.len());
                let sig = format!("roundtrip:prefix{}:{}", prefix, if got.is_none() { "rejected" } else { "wrong-bytes" });
                violation(rep, "C15", seed, &sig,
                    format!("a {}-byte {} payload packed by the published encoder (prefix {}, {} '=' appended) does not decode to the same bytes ({})", b.len(), class_name(class), prefix, pad, match got { None => "decoder returned nothing".to_string(), Some(n) => format!("decoder returned {} bytes", n) }),
                    json!({"class": class_name(class), "len": b.len(), "prefix": prefix, "padding": pad, "encoded_len": s.len(), "payload_head": hex::encode(&b[..b.len().min(64)])}));
                return;
            }
            Err(p) => {
                violation(rep, "C15", seed, "decode-panic", format!("decoding a payload packed by the published encoder panicked: {}", p), json!({"class": class_name(class), "len": b.len(), "padding": pad}));
                return;
            }
        }
    }
}

pub fn nada_pack(b: &[u8]) -> Vec<u8> {
    let mut v = vec![1u8];
    v.extend_from_slice(&nada::encode(b.iter().cloned()));
    v
}

pub fn zstd_pack(b: &[u8], level: i32, with_size: bool) -> Option<Vec<u8>> {
    let mut dst = vec![0u8; b.len() + b.len() / 8 + 1024];
    let n = if with_size {
        zstd_safe::compress(dst.as_mut_slice(), b, level).ok()?
    } else {
        let mut c = zstd_safe::CCtx::create();
        c.set_parameter(zstd_safe::CParameter::ContentSizeFlag(false)).ok()?;
        c.set_parameter(zstd_safe::CParameter::CompressionLevel(level)).ok()?;
        c.compress2(dst.as_mut_slice(), b).ok()?
    };
    let mut v = vec![2u8];
    v.extend_from_slice(&dst[..n]);
    Some(v)
}

/// Hand-packed payloads: never panic, never > 1 MiB, never a wrong Some.
fn handpacked(rep: &mut WorkerReport, seed: u64, kind: &str, packed: &[u8], original: Option<&[u8]>) {
    rep.evaluations += 1;
    let s = BASE64_STANDARD_NO_PAD.encode(packed);
    match decode(&s) {
        Err(p) => violation(rep, "C15", seed, &format!("decode-panic:{}", kind), format!("decoder panicked on a hand-packed {} payload: {}", kind, p), json!({"kind": kind, "packed_head": hex::encode(&packed[..packed.len().min(48)]), "packed_len": packed.len()})),
        Ok(Some(d)) => {
            if d.len() > LIMIT {
                violation(rep, "C15", seed, &format!("over-limit:{}", kind), format!("decoder produced {} bytes (> 1 MiB) from {} compressed bytes", d.len(), packed.len()), json!({"kind": kind, "packed_len": packed.len()}));
            } else if let Some(o) = original {
                if d.as_ref() != o {
                    violation(rep, "C15", seed, &format!("wrong-bytes:{}", kind), format!("hand-packed {} payload decodes to different bytes", kind), json!({"kind": kind, "len": o.len()}));
                } else {
                    rep.nontrivial(format!("hand:{}:{}", kind, bucket(o.len())));
                }
            }
            rep.count("handpacked_accepted", 1);
        }
        Ok(None) => {
            rep.count("handpacked_rejected", 1);
            if let Some(o) = original {
                if o.len() > LIMIT {
                    rep.nontrivial(format!("bomb-rejected:{}", kind));
                }
                // the raw form is part of the published scheme (prefix 0x00 + the bytes): an indexer that
                // packs it by hand, e.g. because the reference encoder cannot compress an incompressible
                // payload close to the limit into its buffer, must get its bytes back as long as prefix +
                // payload fit into the limit
                if kind.starts_with("raw") && o.len() < LIMIT {
                    violation(rep, "C15", seed, &format!("raw-form-rejected:{}", kind), format!("a {}-byte payload in the raw form (prefix 0x00, {} bytes in total, within the limit) was rejected by the decoder", o.len(), packed.len()), json!({"kind": kind, "len": o.len(), "base64_len": s.len()}));
                }
            }
        }
    }
    // the raw form with '=' padding
    if kind.starts_with("raw") {
        if let Some(o) = original {
            if o.len() < LIMIT {
                for pad in 1..=2usize {
                    rep.evaluations += 1;
                    let t = format!("{}{}", s, "=".repeat(pad));
                    match decode(&t) {
                        Ok(Some(d)) if d.as_ref() == o => {}
                        Ok(other) => {
                            violation(rep, "C15", seed, &format!("raw-form-rejected:{}:padded", kind), format!("a {}-byte payload in the raw form with {} '=' appended does not decode to the same bytes ({:?})", o.len(), pad, other.map(|d| d.len())), json!({"kind": kind, "len": o.len(), "padding": pad}));
                            return;
                        }
                        Err(p) => {
                            violation(rep, "C15", seed, &format!("decode-panic:{}", kind), format!("decoder panicked on a padded raw payload: {}", p), json!({"kind": kind}));
                            return;
                        }
                    }
                }
            }
        }
    }
}

fn direct(ctx: &WorkerCtx, rep: &mut WorkerReport) {
    let mut rng = ctx.rng();
    // small and medium payloads
    let n_small = if ctx.thorough() { 600 } else { 60 };
    for i in 0..n_small {
        let class = i % 10;
        let len = match rng.below(8) {
            0 => 0,
            1 => 1,
            2 => 2,
            3 => rng.range(3, 64) as usize,
            4 => rng.range(64, 4096) as usize,
            _ => rng.range(4096, 70_000) as usize,
        };
        let b = payload(&mut rng, class, len);
        roundtrip(rep, ctx.seed, class, &b);
        handpacked(rep, ctx.seed, "nada", &nada_pack(&b), Some(&b));
        if let Some(z) = zstd_pack(&b, 3, i % 2 == 0) {
            handpacked(rep, ctx.seed, if i % 2 == 0 { "zstd" } else { "zstd-nosize" }, &z, Some(&b));
        }
        let mut raw = vec![0u8];
        raw.extend_from_slice(&b);
        handpacked(rep, ctx.seed, "raw", &raw, Some(&b));
    }
    // around the limit (expensive: level-22 zstd of 1 MiB)
    let near: Vec<usize> = vec![LIMIT - 40, LIMIT - 17, LIMIT - 2, LIMIT - 1, LIMIT, LIMIT + 1, LIMIT + 2];
    let n_near = if ctx.thorough() { 10 } else { 2 };
    for j in 0..n_near {
        let class = (ctx.shard + j) % 10;
        let len = near[((ctx.shard * 3 + j * 5 + ctx.seed) % near.len() as u64) as usize];
        let b = payload(&mut rng, class, len);
        if len <= LIMIT {
            roundtrip(rep, ctx.seed, class, &b);
        }
        // hand-packed near/over the limit: bombs must be refused, exact fits must not be wrong
        handpacked(rep, ctx.seed, "nada-limit", &nada_pack(&b), Some(&b));
        if let Some(z) = zstd_pack(&b, 1, true) {
            handpacked(rep, ctx.seed, "zstd-limit", &z, Some(&b));
        }
        if let Some(z) = zstd_pack(&b, 1, false) {
            handpacked(rep, ctx.seed, "zstd-nosize-limit", &z, Some(&b));
        }
        {
            let mut raw = vec![0u8];
            raw.extend_from_slice(&b);
            handpacked(rep, ctx.seed, "raw-limit", &raw, Some(&b));
        }
    }
    // large incompressible payloads: the encoder picks the raw form, the base64 text is longer than
    // the limit although the payload is not
    // (the largest payloads the raw form carries: limit-1, and limit-2 / limit-3 where '=' padding is added)
    let large = [786_431usize, 786_432, 786_433, 800_000, LIMIT - 1, 900_000, LIMIT - 2, 1_000_000, LIMIT - 60, LIMIT - 3, 524_288];
    let n_large = if ctx.thorough() { large.len() } else { 2 };
    for j in 0..n_large {
        let len = large[(ctx.shard as usize + j * 3 + ctx.seed as usize) % large.len()];
        let b = payload(&mut rng, 0, len);
        roundtrip(rep, ctx.seed, 0, &b);
        let mut raw = vec![0u8];
        raw.extend_from_slice(&b);
        handpacked(rep, ctx.seed, "raw-large", &raw, Some(&b));
    }
    // bombs
    let big = vec![0u8; 3 * LIMIT];
    handpacked(rep, ctx.seed, "zstd-bomb-declared", &zstd_pack(&big, 1, true).unwrap_or_default(), Some(&big));
    handpacked(rep, ctx.seed, "zstd-bomb-undeclared", &zstd_pack(&big, 1, false).unwrap_or_default(), Some(&big));
    handpacked(rep, ctx.seed, "nada-bomb", &nada_pack(&big), Some(&big));
    let mut runs = vec![1u8];
    for _ in 0..6000 {
        runs.extend_from_slice(&[0xff, 0xff]); // each pair: one 0xff byte... or a run, either way bounded by the limit
        runs.extend_from_slice(&[0xff, 255]);
    }
    handpacked(rep, ctx.seed, "nada-many-runs", &runs, None);
    // unknown prefixes, truncations, garbage, empty
    for p in 0u16..=255 {
        let mut v = vec![p as u8];
        let n = rng.below(40) as usize;
        v.extend_from_slice(&rng.bytes(n));
        handpacked(rep, ctx.seed, if p > 2 { "unknown-prefix" } else { "garbage-after-known-prefix" }, &v, None);
    }
    let sample = payload(&mut rng, 3, 5000);
    if let Some(z) = zstd_pack(&sample, 3, true) {
        for cut in [1usize, 2, 5, 9, z.len() / 2, z.len() - 1] {
            handpacked(rep, ctx.seed, "zstd-truncated", &z[..cut.min(z.len())], None);
        }
    }
    let n = nada_pack(&payload(&mut rng, 2, 3000));
    for cut in [1usize, 2, n.len() - 1] {
        handpacked(rep, ctx.seed, "nada-truncated", &n[..cut], None);
    }
    for s in ["", "=", "==", "====", "A", "AA", "AA=", "A=A", "AQ", "AQ==", "Ag", "AA=AA", "!!!!", " ", "AAAA AAAA", "\u{0}"] {
        rep.evaluations += 1;
        match decode(s) {
            Err(p) => violation(rep, "C15", ctx.seed, "decode-panic:degenerate-base64", format!("decoder panicked on the base64 text {:?}: {}", s, p), json!({"text": s})),
            Ok(Some(d)) if d.len() > LIMIT => violation(rep, "C15", ctx.seed, "over-limit:degenerate", "over limit".into(), json!({"text": s})),
            _ => {}
        }
    }
    rep.sample(json!({"kind": "direct", "small_payloads": n_small, "near_limit_payloads": n_near, "limit": LIMIT}));
}

fn twin_submissions(ctx: &WorkerCtx, rep: &mut WorkerReport) {
    let (net, traces) = net_for_shard(ctx.shard);
    let _ = traces;
    let mut rng = ctx.rng().fork(77);
    let mut a = new_driver("C15");
    let mut b = new_driver("C15");
    let chain = rpc::chain_id_for(net);
    a.exec(Op::Init { hash: hist::ZERO_HASH.into(), ts: 10, height: 0 });
    b.exec(Op::Init { hash: hist::ZERO_HASH.into(), ts: 10, height: 0 });
    let pk = "5120bbbbbbbbbbbbbbbbbbbbbbbbbbbbbbbbbbbbbbbbbbbbbbbbbbbbbbbbbbbbbbbb".to_string();
    let signer = hist::Signer::new(2);
    let mut tool: Option<String> = None;
    let n = if ctx.thorough() { 24 } else { 8 };
    let blk = (1000u64, crate::hist::bh((0xb15u64) as u64));
    let mut nonce = 0u64;
    for i in 0..n {
        let ctxa = Ctx { ts: blk.0, hash: blk.1.clone(), idx: a.ntx };
        let iid = format!("c15-{}i0", i);
        let txid = crate::hist::bh((0x7100 + i) as u64);
        let mk = |enc: Enc| -> Op {
            match (i % 4, &tool) {
                (0, _) | (_, None) => Op::Deploy { pk: pk.clone(), data: hist::hx(&if i % 8 == 0 { asm::tool_init() } else { asm::tool_init_with_ctor() }), enc, ctx: ctxa.clone(), iid: iid.clone(), len: 100_000, txid: txid.clone() },
                (1, Some(t)) => {
                    let data = asm::tool_call(asm::OP_LOGS, &[asm::word_u64(3), asm::word_u64(0xA1), asm::word_u64(i * 16)], &[]);
                    Op::Call { pk: pk.clone(), target: Target::Addr(t.clone()), data: Some(hist::hx(&data)), enc, ctx: ctxa.clone(), iid: iid.clone(), len: 100_000, txid: txid.clone() }
                }
                (2, Some(t)) => {
                    // zero-heavy calldata: the encoder picks a compressed form
                    let data = asm::tool_call(asm::OP_SSTORE, &[asm::word_u64(1 + i), asm::word_u64(0x55 + i)], &vec![0u8; 300]);
                    Op::Call { pk: pk.clone(), target: Target::Addr(t.clone()), data: Some(hist::hx(&data)), enc, ctx: ctxa.clone(), iid: iid.clone(), len: 100_000, txid: txid.clone() }
                }
                (_, Some(t)) => {
                    let raw = signer.sign(Some(chain), nonce, Some(hist::parse_addr(t)), &asm::tool_call(asm::OP_INC, &[asm::word_u64(2)], &[]));
                    Op::Transact { raw: format!("0x{}", raw), enc, ctx: ctxa.clone(), iid: iid.clone(), len: 100_000, txid: txid.clone() }
                }
            }
        };
        let (oa, ob) = (mk(Enc::Hex), mk(Enc::B64));
        let ra = a.exec(oa.clone());
        let rb = b.exec(ob.clone());
        rep.evaluations += 1;
        if i % 4 == 3 && ra.is_ok() && tool.is_some() {
            nonce += hist::receipts_in(&ra).len() as u64;
        }
        if tool.is_none() {
            tool = hist::created_address(&ra);
        }
        if !same(&ra, &rb) {
            violation(rep, "C15", ctx.seed, &format!("submission-differs:{}", oa.kind()),
                format!("the same {} submitted through the hex field and through the base64 field returned different results", oa.kind()),
                json!({"network": net, "hex_op": oa, "base64_op": ob, "hex_result": ra.short(), "base64_result": rb.short()}));
            drop_driver(a);
            drop_driver(b);
            return;
        }
        if ra.is_ok() && !hist::receipts_in(&ra).is_empty() {
            rep.nontrivial(format!("twin:{}:{}", oa.kind(), i % 4));
        }
        let _ = rng.next();
    }
    let cnt = a.ntx;
    a.exec(Op::Finalise { ts: blk.0, hash: blk.1.clone(), count: cnt });
    b.exec(Op::Finalise { ts: blk.0, hash: blk.1.clone(), count: cnt });
    let mut u = universe(&[&a.log, &b.log], 1, None);
    u.max_height = 1;
    let (oa, ob) = observe_pair(&mut a.inst, &mut b.inst, &u, ObsMode::Boundary);
    let d = oa.diff(&ob);
    if !d.is_empty() {
        violation(rep, "C15", ctx.seed, &format!("submission-state-differs:{}", obs_diff_sig(&d)), format!("hex-fed and base64-fed instances differ in {} queries", d.len()), json!({"network": net, "differences(hex vs base64)": obs::diff_summary(&d, 10)}));
    }
    rep.sample(json!({"kind": "twin-submissions", "network": net, "submissions": n, "obs_entries": oa.len()}));
    drop_driver(a);
    drop_driver(b);
}

/// Function-level corpus over the native code the decoders and precompiles reach (zstd, base64,
/// secp256k1/bitcoin script parsing). No RocksDB, no server: meant to be run under valgrind memcheck.
pub fn native_corpus() {
    rpc::set_global_config("signet", false, "http://127.0.0.1:1");
    let mut rng = Rng::new(0x5eed_c0de);
    let mut n = 0u64;
    let mut dec = |b: &[u8]| {
        let s = BASE64_STANDARD_NO_PAD.encode(b);
        let r = brc20_prog::verif::decode_bytes_from_inscription_data(&s);
        n += 1;
        if let Some(d) = r {
            assert!(d.len() <= LIMIT, "decoder produced more than the limit");
        }
    };
    for class in 0..10u64 {
        for len in [0usize, 1, 2, 63, 64, 65, 1000, 5000, 70_000] {
            let b = payload(&mut rng, class, len);
            dec(&nada_pack(&b));
            if let Some(z) = zstd_pack(&b, 3, class % 2 == 0) {
                dec(&z);
                for cut in [1usize, 3, z.len() / 2, z.len().saturating_sub(1)] {
                    dec(&z[..cut.min(z.len())]);
                }
                let mut m = z.clone();
                for _ in 0..6 {
                    let i = rng.below(m.len() as u64) as usize;
                    m[i] ^= 1 << rng.below(8);
                }
                dec(&m);
            }
            let mut raw = vec![0u8];
            raw.extend_from_slice(&b);
            dec(&raw);
        }
    }
    let big = vec![0u8; 2 * LIMIT + 17];
    dec(&zstd_pack(&big, 1, true).unwrap_or_default());
    dec(&zstd_pack(&big, 1, false).unwrap_or_default());
    dec(&nada_pack(&big));
    for p in 0u16..=255 {
        let mut v = vec![p as u8];
        v.extend_from_slice(&rng.bytes_upto(30));
        dec(&v);
    }
    // the published encoder (zstd level 22) on a few payloads
    for class in [0u64, 2, 3] {
        let b = payload(&mut rng, class, 20_000);
        if let Ok(s) = Base64Bytes::from_bytes(Bytes::from(b.clone())) {
            let back = brc20_prog::verif::base64_value(&s);
            assert_eq!(back.map(|x| x.to_vec()), Some(b.clone()));
            n += 1;
        }
    }
    // precompile functions called directly
    use brc20_prog::verif::{bip322_verify_precompile, get_locked_pkscript_precompile, get_op_return_tx_id_precompile, PrecompileCall};
    let call = |bytes: Vec<u8>| PrecompileCall { bytes: bytes.into(), gas_limit: 10_000_000, block_height: alloy::primitives::U256::from(5u64), current_op_return_tx_id: [7u8; 32].into(), btc_tx_hexes_data: Default::default() };
    for len in [0usize, 1, 2, 22, 34, 35, 80, 600] {
        for lock in [0u64, 1, 16, 17, 128, 255, 256, 65535, 65536] {
            let pk = rng.bytes(len);
            let _ = get_locked_pkscript_precompile(&call(crate::pre::get_locked_pkscript(&pk, asm::word_u64(lock))));
            n += 1;
        }
    }
    let pk = hex::decode("00142b05d564e6a7a33c087f16e0f730d1440123799d").unwrap();
    for sl in [0usize, 1, 64, 107, 108, 400] {
        let sig = rng.bytes(sl);
        let _ = bip322_verify_precompile(&call(crate::pre::bip322_verify(&pk, b"Hello World", &sig)));
        let _ = bip322_verify_precompile(&call(crate::pre::bip322_verify(&rng.bytes_upto(40), &rng.bytes_upto(100), &sig)));
        n += 2;
    }
    for _ in 0..40 {
        let junk = rng.bytes_upto(300);
        let _ = bip322_verify_precompile(&call(junk.clone()));
        let _ = get_locked_pkscript_precompile(&call(junk.clone()));
        let _ = get_op_return_tx_id_precompile(&call(junk));
        n += 3;
    }
    println!("native-corpus: {} calls", n);
}

/// Sanitizer pass: the native corpus under valgrind memcheck (one shard).
fn memcheck_pass(ctx: &WorkerCtx, rep: &mut WorkerReport) {
    let vg = std::process::Command::new("valgrind").arg("--version").output();
    if vg.is_err() {
        rep.notes.push("valgrind not available: memcheck pass skipped".into());
        return;
    }
    let exe = std::env::current_exe().unwrap();
    let log = rpc::fresh_dir("C15").join("memcheck.log");
    let out = std::process::Command::new("valgrind")
        .args(["--error-exitcode=99", "--leak-check=no", "--quiet", &format!("--log-file={}", log.display())])
        .arg(exe)
        .arg("native-corpus")
        .output();
    match out {
        Ok(o) => {
            let code = o.status.code();
            let text = std::fs::read_to_string(&log).unwrap_or_default();
            rep.evaluations += 1;
            if code == Some(99) {
                let first = text.lines().find(|l| l.contains("Invalid") || l.contains("uninitialised") || l.contains("Mismatched")).unwrap_or("").to_string();
                let frame = text.lines().find(|l| l.contains(" at 0x") || l.contains(" by 0x")).unwrap_or("").to_string();
                violation(rep, "C15", ctx.seed, &format!("memcheck:{}", first.split("==").last().unwrap_or("").trim().chars().take(40).collect::<String>()), format!("valgrind memcheck reported an error on the decoder/precompile corpus: {} {}", first, frame), json!({"log": text.chars().take(4000).collect::<String>()}));
            } else if code == Some(0) {
                rep.nontrivial("memcheck-clean-native-corpus".to_string());
                rep.notes.push(format!("valgrind memcheck: native corpus clean ({})", String::from_utf8_lossy(&o.stdout).trim()));
            } else {
                rep.inconclusive(format!("valgrind run ended with {:?}: {}", code, text.chars().take(300).collect::<String>()));
            }
        }
        Err(e) => rep.notes.push(format!("valgrind could not be run: {}", e)),
    }
}

pub fn worker(ctx: &WorkerCtx) -> WorkerReport {
    let (net, traces) = net_for_shard(ctx.shard);
    crate::setup_env(net, traces);
    let mut rep = WorkerReport::default();
    direct(ctx, &mut rep);
    twin_submissions(ctx, &mut rep);
    if ctx.shard == 1 {
        memcheck_pass(ctx, &mut rep);
    }
    rep
}
