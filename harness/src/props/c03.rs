//! C03 — commit points are unobservable; uncommitted work is what is lost.

use serde_json::json;

use super::common::*;
use crate::hist::{self, Driver, Op, World};
use crate::obs::{self, ObsMode};
use crate::report::{Spec, WorkerReport};
use crate::rpc;
use crate::WorkerCtx;

pub fn spec() -> Spec {
    Spec {
        prop: "C03",
        level: "exploration",
        rule: "Differential twins: one generated history (half of them with a rollback to the tip or one or two blocks back in the middle) replayed under commit schedules never/every/every-k/random, every response and Obs (all read methods over every identifier the history mentioned) compared at every block boundary; clearCaches (boundary and mid-block) and reopen-without-commit compared with a fresh twin fed the prefix up to the last commit, then both extended identically. Non-trivial = a compared boundary at which one twin had >=1 block with transactions only in cache and the other had it on disk (schedule cases), or a clear/reopen that really discarded >=1 uncommitted block or open-block transaction; distinct by (history digest, schedule/case kind, boundary).",
        assumptions: vec![
            "Obs covers the public read surface; state not reachable through any read method is not compared here (C10 compares raw database contents)".into(),
            "twins share bugs that do not depend on the commit schedule".into(),
        ],
        exhaustive: false,
        min_nontrivial: 2,
    }
}

fn schedule_case(ctx: &WorkerCtx, rep: &mut WorkerReport, case_seed: u64, blocks: u64) {
    let (net, _) = net_for_shard(ctx.shard);
    let mut rng = crate::rng::Rng::new(case_seed);
    let mut w = World::new(case_seed, rpc::chain_id_for(net));
    // chains of 65 000+ blocks cost a gigabyte per uncommitted twin: one worker in eight draws them,
    // and such a case runs under three schedules instead of six
    let scale = scale_world(&mut w, case_seed, true, ctx.thorough() && ctx.shard % 8 == 5);
    let deep = scale == "base-65530" || scale == "gap-65536";
    rep.set_add("scale_profiles", scale);
    w.profile.p_empty_block = 10;
    w.profile.max_txs_per_block = 6;
    // primary: never commits
    let mut p = new_driver("C03");
    // record Obs of the primary at every boundary lazily: we need the universe first, so run the
    // primary to the end, then replay primary again ("never") alongside the twins.
    // half of the histories contain a rollback (to the tip, or one or two blocks back): an accepted
    // rollback writes out whatever survives it, under every schedule alike
    let first = blocks / 2 + rng.below(2);
    grow(&mut w, &mut p, first, CommitPolicy::Never, &mut rng);
    if p.ntx == 0 && p.height > w.base as i64 + 2 && rng.chance(1, 2) {
        let n = (p.height as u64) - rng.below(3);
        if p.exec(Op::Reorg { n }).is_ok() {
            rep.set_add("coverage", "rollback-inside-the-history".to_string());
        }
    }
    grow(&mut w, &mut p, blocks.saturating_sub(first), CommitPolicy::Never, &mut rng);
    let ops: Vec<Op> = p.log.iter().map(|(o, _)| o.clone()).collect();
    let presp: Vec<_> = p.log.iter().map(|(_, r)| r.clone()).collect();
    let hd = digest_ops(&ops);
    let u = universe(&[&p.log], p.height.max(0) as u64, Some(&w));
    drop_driver(p);

    let policies = if deep {
        vec![CommitPolicy::Never, CommitPolicy::Every, CommitPolicy::Random(40)]
    } else if ctx.thorough() {
        vec![CommitPolicy::Never, CommitPolicy::Every, CommitPolicy::EveryK(2), CommitPolicy::EveryK(3), CommitPolicy::Random(30), CommitPolicy::Random(60)]
    } else {
        vec![CommitPolicy::Never, CommitPolicy::Every, CommitPolicy::EveryK(3), CommitPolicy::Random(40)]
    };
    let mut twins: Vec<(CommitPolicy, Driver, i64)> = policies.iter().map(|pol| (*pol, new_driver("C03"), -1i64)).collect();
    let mut boundary = 0u64;
    let mut blocks_with_txs_since: Vec<u64> = vec![0; twins.len()]; // uncommitted blocks with txs per twin
    let mut block_has_tx = false;
    for (i, op) in ops.iter().enumerate() {
        let mut resps = Vec::new();
        for (_, t, _) in twins.iter_mut() {
            resps.push(t.exec(op.clone()));
        }
        rep.count("calls", twins.len() as u64);
        if op.is_tx() && presp[i].is_ok() {
            block_has_tx = true;
        }
        for (k, r) in resps.iter().enumerate() {
            if !same(r, &presp[i]) {
                violation(
                    rep,
                    "C03",
                    ctx.seed,
                    &format!("response-differs:{}", op.kind()),
                    format!("same call answered differently under commit schedule {} than under 'never'", twins[k].0.name()),
                    json!({"case_seed": case_seed, "network": net, "schedule": twins[k].0.name(), "op_index": i, "op": op,
                           "never": presp[i].short(), "scheduled": r.short(), "ops": ops_json(&ops[..=i])}),
                );
                for (_, t, _) in twins {
                    drop_driver(t);
                }
                return;
            }
        }
        let is_boundary = matches!(op, Op::Finalise { .. } | Op::Mine { .. } | Op::Init { .. } | Op::Reorg { .. }) && presp[i].is_ok();
        if !is_boundary {
            continue;
        }
        if matches!(op, Op::Reorg { .. }) {
            for k in 0..twins.len() {
                blocks_with_txs_since[k] = 0;
            }
            rep.nontrivial(format!("{}:rollback-under-every-schedule:{}", hd, boundary));
        }
        for k in 0..twins.len() {
            if block_has_tx {
                blocks_with_txs_since[k] += 1;
            }
        }
        block_has_tx = false;
        // commits per policy
        for (k, (pol, t, _)) in twins.iter_mut().enumerate() {
            if pol.wants(boundary, &mut rng) {
                let r = t.exec(Op::Commit);
                if !r.is_ok() {
                    violation(rep, "C03", ctx.seed, "commit-refused", format!("commit at a block boundary failed: {}", r.short()), json!({"case_seed": case_seed, "ops": ops_json(&ops[..=i])}));
                }
                blocks_with_txs_since[k] = 0;
            }
        }
        boundary += 1;
        // observe all twins, compare against twin 0 (never)
        let mut uu = u.clone();
        uu.max_height = twins[0].1.height.max(0) as u64;
        let base = obs::observe(&mut twins[0].1.inst, &uu, ObsMode::Boundary);
        rep.count("obs_entries", base.len() as u64);
        for k in 1..twins.len() {
            let o = obs::observe(&mut twins[k].1.inst, &uu, ObsMode::Boundary);
            rep.evaluations += 1;
            // non-trivial: 'never' has uncommitted blocks with txs that this twin has on disk
            if blocks_with_txs_since[0] > blocks_with_txs_since[k] {
                rep.nontrivial(format!("{}:{}:{}", hd, twins[k].0.name(), boundary));
            }
            let d = base.diff(&o);
            if !d.is_empty() {
                let sig = format!("obs-differs:{}", obs_diff_sig(&d));
                violation(
                    rep,
                    "C03",
                    ctx.seed,
                    &sig,
                    format!("after the same history, queries answer differently under commit schedule {} than with no commits ({} differing queries, height {})", twins[k].0.name(), d.len(), uu.max_height),
                    json!({"case_seed": case_seed, "network": net, "schedule": twins[k].0.name(), "boundary": boundary,
                           "differences(never vs scheduled)": obs::diff_summary(&d, 12), "ops": ops_json(&ops[..=i])}),
                );
                for (_, t, _) in twins {
                    drop_driver(t);
                }
                return;
            }
        }
    }
    rep.sample(json!({"kind": "schedules", "case_seed": case_seed, "network": net, "ops": ops.len(), "boundaries": boundary,
        "schedules": policies.iter().map(|p| p.name()).collect::<Vec<_>>(), "first_ops": ops_json(&ops[..ops.len().min(4)])}));
    for (_, t, _) in twins {
        drop_driver(t);
    }
}

/// clearCaches / reopen-without-commit: the instance must be exactly in the state of its last commit.
fn discard_case(ctx: &WorkerCtx, rep: &mut WorkerReport, case_seed: u64) {
    let (net, _) = net_for_shard(ctx.shard);
    let mut rng = crate::rng::Rng::new(case_seed ^ 0xD15C);
    let mut w = World::new(case_seed, rpc::chain_id_for(net));
    let scale = scale_world(&mut w, case_seed, true, ctx.thorough() && ctx.shard % 4 == 1);
    rep.set_add("scale_profiles", scale);
    w.profile.p_empty_block = 10;
    let mut a = new_driver("C03");
    let pre = rng.range(2, 10);
    grow(&mut w, &mut a, pre, CommitPolicy::Random(35), &mut rng);
    if rng.chance(2, 3) {
        a.exec(Op::Commit);
        // a commit with no block finalised since the previous one still has something to write:
        // signed transactions parked meanwhile (they need no finalise and do not block a commit)
        if a.height >= 0 && rng.chance(1, 2) {
            let parked = w.park_only(&mut a);
            let r = a.exec(Op::Commit);
            if parked > 0 && r.is_ok() {
                rep.set_add("coverage", "commit-with-only-parked-transactions-since-the-last-one".to_string());
                rep.nontrivial(format!("parked-then-committed:{}", parked.min(2)));
            }
        }
    }
    let post = rng.range(0, 4);
    grow(&mut w, &mut a, post, CommitPolicy::Never, &mut rng);
    // maybe leave a block open (mid-block discard)
    let mid = rng.chance(1, 2);
    let mut open_txs = 0;
    if mid && a.height >= 0 {
        let blk = w.block_ctx(&a);
        for _ in 0..rng.range(1, 3) {
            w.gen_tx(&mut a, &blk);
        }
        open_txs = a.ntx;
    }
    let lost_blocks = a.height - a.committed;
    let kind = if rng.chance(1, 2) { "clear" } else { "reopen" };
    let committed_prefix: Vec<Op> = a.committed_ops();
    let before_log_len = a.log.len();
    let r = if kind == "clear" { a.exec(Op::Clear) } else { a.exec(Op::Reopen) };
    if !r.is_ok() {
        violation(rep, "C03", ctx.seed, &format!("{}-failed", kind), format!("{} failed: {}", kind, r.short()), json!({"case_seed": case_seed}));
        drop_driver(a);
        return;
    }
    // twin: fresh directory, fed exactly the committed prefix
    let mut b = new_driver("C03");
    for op in &committed_prefix {
        b.exec(op.clone());
    }
    let mut u = universe(&[&a.log, &b.log], (a.height.max(0) as u64) + post + 1, Some(&w));
    u.max_height = (a.height.max(0) as u64) + post + 1;
    let (oa, ob) = observe_pair(&mut a.inst, &mut b.inst, &u, ObsMode::Boundary);
    rep.evaluations += 1;
    if lost_blocks > 0 || open_txs > 0 {
        rep.nontrivial(format!("{}:{}:lost{}:open{}", digest_ops(&committed_prefix), kind, lost_blocks, open_txs.min(1)));
    }
    let d = oa.diff(&ob);
    if !d.is_empty() {
        violation(
            rep,
            "C03",
            ctx.seed,
            &format!("{}-not-last-commit:{}", kind, obs_diff_sig(&d)),
            format!("after {} the instance differs from a fresh replay of its last commit ({} differing queries)", kind, d.len()),
            json!({"case_seed": case_seed, "network": net, "kind": kind, "lost_blocks": lost_blocks, "open_txs": open_txs,
                   "differences(discarded vs fresh-prefix)": obs::diff_summary(&d, 12), "history": log_json(&a.log[..before_log_len], 400)}),
        );
        drop_driver(a);
        drop_driver(b);
        return;
    }
    // both continue identically; often the very next block is an empty one (nothing re-initialises
    // the per-block bookkeeping before it is finalised)
    let ext_start = a.log.len();
    // the last commit includes what a rollback needs: one time in three the continuation starts with a
    // rollback below the height the instance came back at
    if a.ntx == 0 && a.height > w.base as i64 + 1 && rng.chance(1, 3) {
        let n = (a.height as u64).saturating_sub(rng.range(1, 3)).max(w.base);
        if (n as i64) < a.height && a.max_ever - (n as i64) <= 10 {
            let r = a.exec(Op::Reorg { n });
            if r.is_ok() {
                rep.nontrivial(format!("rollback-after-{}", kind));
            }
        }
    }
    if rng.chance(1, 2) && a.height >= 0 {
        if rng.chance(1, 2) {
            w.ts += 5;
            a.exec(Op::Mine { n: 1, ts: w.ts });
        } else {
            let (ts, hash) = w.block_ctx(&a);
            a.exec(Op::Finalise { ts, hash, count: 0 });
        }
    }
    grow(&mut w, &mut a, 2, CommitPolicy::Never, &mut rng);
    let ext: Vec<(Op, crate::rpc::Resp)> = a.log[ext_start..].to_vec();
    for (op, ra) in &ext {
        let rb = b.exec(op.clone());
        if !same(ra, &rb) {
            violation(
                rep,
                "C03",
                ctx.seed,
                &format!("{}-continue-differs:{}", kind, op.kind()),
                format!("continuing after {} gives a different answer than continuing a fresh replay of the last commit", kind),
                json!({"case_seed": case_seed, "network": net, "op": op, "after_discard": ra.short(), "fresh": rb.short(), "history": log_json(&a.log, 400)}),
            );
            drop_driver(a);
            drop_driver(b);
            return;
        }
    }
    let mut u2 = universe(&[&a.log, &b.log], a.height.max(0) as u64, Some(&w));
    u2.max_height = a.height.max(0) as u64;
    let (oa, ob) = observe_pair(&mut a.inst, &mut b.inst, &u2, ObsMode::Boundary);
    let d = oa.diff(&ob);
    if !d.is_empty() {
        violation(
            rep,
            "C03",
            ctx.seed,
            &format!("{}-continue-obs:{}", kind, obs_diff_sig(&d)),
            format!("two blocks after {} the instance differs from the fresh twin ({} differing queries)", kind, d.len()),
            json!({"case_seed": case_seed, "network": net, "differences": obs::diff_summary(&d, 12), "history": log_json(&a.log, 400)}),
        );
    }
    rep.count("discard_cases", 1);
    if rep.samples.len() < 3 {
        rep.sample(json!({"kind": kind, "case_seed": case_seed, "mid_block": mid, "lost_blocks": lost_blocks, "open_txs": open_txs, "obs_entries": oa.len()}));
    }
    drop_driver(a);
    drop_driver(b);
    let _ = hist::ZERO_HASH;
}

pub fn worker(ctx: &WorkerCtx) -> WorkerReport {
    if ctx.shard == 4 {
        FORCE_HUGE.store(true, std::sync::atomic::Ordering::Relaxed);
    }
    let (net, traces) = net_for_shard(ctx.shard);
    crate::setup_env(net, traces);
    let mut rep = WorkerReport::default();
    let mut rng = ctx.rng();
    let (mut n_sched, n_discard, blocks) = if ctx.thorough() { (6, 16, 14) } else { (1, 4, 8) };
    if ctx.thorough() && ctx.shard % 8 == 5 {
        n_sched = 3; // the workers that may draw 65 000-block chains
    }
    for _ in 0..n_sched {
        let cs = rng.next();
        schedule_case(ctx, &mut rep, cs, blocks);
    }
    for _ in 0..n_discard {
        let cs = rng.next();
        discard_case(ctx, &mut rep, cs);
    }
    rep.set_add("networks", net);
    rep
}
