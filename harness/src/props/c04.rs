//! C04 — a crash at any write can be recovered exactly by a reorg to a durable height.
//!
//! Fault enumeration with real process deaths: a child process replays the history and is killed
//! (`_exit` inside the failpoint observer, no destructors, no RocksDB close) immediately before the
//! k-th persistent write of the victim call. The parent then reopens the directory.

use std::collections::BTreeMap;
use std::path::{Path, PathBuf};
use std::process::Command;
use std::sync::atomic::{AtomicI64, AtomicU64, Ordering};
use std::sync::{Arc, Mutex};

use serde_json::{json, Value};

use super::common::*;
use crate::asm;
use crate::hist::{self, Ctx, Driver, Enc, Op, Target, World};
use crate::obs::{self, Obs, ObsMode, Universe};
use crate::report::{Spec, WorkerReport};
use crate::rng::Rng;
use crate::rpc::{self, Inst, Resp};
use crate::WorkerCtx;

pub fn spec() -> Spec {
    Spec {
        prop: "C04",
        level: "fault_enumeration",
        rule: "Fault enumeration with the failpoint hook and real process deaths: for a victim call (commit after 1-6 uncommitted blocks, reorg with/without uncommitted blocks, finalise) preceded by a generated history with commits, a child process replays the history and is killed (_exit, nothing flushed or closed) immediately before the k-th RocksDB put/delete/flush of the victim; the parent reopens the directory and, for every height N that was fully committed before the crash, inside the 10-block window and not above an attempted reorg target, runs reorg(N) on a copy and compares Obs with a fresh replay to N, then extends both by two blocks and compares again. Crashes in finalise / between calls: the reopened instance must equal the state right after its last commit. Half of the victims killed outside a commit (and always the one of shard 6) have more than 1024 uncommitted blocks behind them. Non-trivial = crash point strictly inside the victim's write sequence (k >= 1); distinct by (victim, write ordinal, N).",
        assumptions: vec![
            "RocksDB hands each WAL record to the OS before put returns, so a killed process leaves exactly the writes issued so far; torn writes inside RocksDB, fsync loss on power failure and disk errors are out of reach and out of the statement".into(),
            "more than 10 blocks finalised since the last commit makes recovery impossible by design; the generator stays inside the window".into(),
        ],
        exhaustive: false,
        min_nontrivial: 2,
    }
}

// ---------------------------------------------------------------------------------------------
// Child: replay and die
// ---------------------------------------------------------------------------------------------

static KILL_AT: AtomicI64 = AtomicI64::new(-1);
static WRITE_NO: AtomicU64 = AtomicU64::new(0);

pub fn child(ctx: &WorkerCtx) {
    // extra: ["crash", <spec file>, <dir>]
    let v: Value = serde_json::from_str(&std::fs::read_to_string(&ctx.extra[1]).expect("spec")).expect("json");
    let net = v["network"].as_str().unwrap_or("regtest").to_string();
    let traces = NETS.iter().find(|(n, _)| *n == net).map(|(_, t)| *t).unwrap_or(true);
    crate::setup_env(&net, traces);
    let ops: Vec<Op> = serde_json::from_value(v["ops"].clone()).expect("ops");
    let victim: Op = serde_json::from_value(v["victim"].clone()).expect("victim");
    let kill_at = v["kill_at"].as_i64().unwrap_or(0);
    let dir = PathBuf::from(&ctx.extra[2]);
    let mut inst = Inst::open(&dir).expect("open");
    for op in &ops {
        hist::apply(&mut inst, op);
    }
    if kill_at == -2 {
        // killed between two calls
        unsafe { libc::_exit(77) };
    }
    brc20_prog::verif::set_write_observer(Some(Arc::new(move |_e: &brc20_prog::verif::WriteEvent<'_>| {
        let n = WRITE_NO.fetch_add(1, Ordering::SeqCst) as i64;
        if n == KILL_AT.load(Ordering::SeqCst) {
            unsafe { libc::_exit(77) };
        }
    })));
    KILL_AT.store(kill_at, Ordering::SeqCst);
    WRITE_NO.store(0, Ordering::SeqCst);
    hist::apply(&mut inst, &victim);
    // the victim completed without reaching write k
    unsafe { libc::_exit(78) };
}

// ---------------------------------------------------------------------------------------------
// Parent
// ---------------------------------------------------------------------------------------------

struct Case<'a> {
    net: &'a str,
    ops: Vec<Op>,
    victim: Op,
    victim_kind: String,
    /// heights at which everything up to that height was committed before the victim
    hc: i64,
    /// highest block ever finalised before the crash
    m: i64,
    /// upper bound for recovery targets (an attempted reorg target caps it)
    cap: i64,
    chain_before: Vec<Vec<Op>>,
    universe: Universe,
    world_seed: u64,
    writes: Vec<String>,
}

fn count_writes(d: &mut Driver, victim: &Op) -> Vec<String> {
    let log = Arc::new(Mutex::new(Vec::new()));
    let l2 = log.clone();
    brc20_prog::verif::set_write_observer(Some(Arc::new(move |e: &brc20_prog::verif::WriteEvent<'_>| {
        if let Ok(mut g) = l2.lock() {
            g.push(format!("{}:{}:{}", e.site, e.db_path.file_name().map(|x| x.to_string_lossy().to_string()).unwrap_or_default(), e.op));
        }
    })));
    d.exec(victim.clone());
    brc20_prog::verif::set_write_observer(None);
    let g = log.lock().unwrap().clone();
    g
}

fn fresh_obs_at(c: &Case, n: u64, cache: &mut BTreeMap<u64, (Obs, PathBuf)>) -> Option<Obs> {
    if let Some((o, _)) = cache.get(&n) {
        return Some(o.clone());
    }
    let mut f = new_driver("C04");
    for op in c.chain_before.iter().take(n as usize + 1).flatten() {
        f.exec(op.clone());
    }
    if f.height != n as i64 {
        drop_driver(f);
        return None;
    }
    let mut u = c.universe.clone();
    u.max_height = (c.m.max(0) as u64).max(n) + 1;
    let o = obs::observe(&mut f.inst, &u, ObsMode::Boundary);
    let dir = f.inst.dir.clone();
    // keep the fresh directory (committed and closed) for the extension comparison
    f.exec(Op::Commit);
    f.inst.close();
    cache.insert(n, (o.clone(), dir));
    Some(o)
}

fn run_point(ctx: &WorkerCtx, rep: &mut WorkerReport, c: &Case, k: i64, fresh: &mut BTreeMap<u64, (Obs, PathBuf)>, after_commit_obs: &Option<Obs>, rng: &mut Rng) -> bool {
    let work = rpc::fresh_dir("C04");
    let dir = work.join("db");
    let specf = work.join("spec.json");
    std::fs::write(&specf, serde_json::to_string(&json!({"network": c.net, "ops": c.ops, "victim": c.victim, "kill_at": k})).unwrap()).unwrap();
    let exe = std::env::current_exe().unwrap();
    let status = Command::new(exe)
        .args(["worker", "C04", &ctx.tier, &ctx.seed.to_string(), "0", "1", work.join("unused.json").to_str().unwrap(), "crash", specf.to_str().unwrap(), dir.to_str().unwrap()])
        .stdout(std::process::Stdio::null())
        .stderr(std::process::Stdio::null())
        .status();
    let code = status.ok().and_then(|s| s.code());
    if code != Some(77) {
        rep.inconclusive(format!("crash child for write {} of {} exited with {:?} instead of dying at the failpoint", k, c.victim_kind, code));
        rpc::remove_dir(&work);
        return true;
    }
    rep.count("process_deaths", 1);
    let label = format!("{} killed before write {}/{} ({})", c.victim_kind, k, c.writes.len(), c.writes.get(k as usize).cloned().unwrap_or_default());
    // finalise / between-calls victims: the reopened instance equals the state after the last commit
    if c.victim_kind == "finalise" || c.victim_kind == "between-calls" {
        let mut i = match Inst::open(&dir) {
            Ok(i) => i,
            Err(e) => {
                violation(rep, "C04", ctx.seed, "reopen-failed", format!("{}: the database does not reopen: {}", label, e), json!({"network": c.net}));
                rpc::remove_dir(&work);
                return false;
            }
        };
        rep.evaluations += 1;
        if let Some(want) = after_commit_obs {
            // exactly the universe the reference observation was taken with
            let got = obs::observe(&mut i, &c.universe, ObsMode::Boundary);
            let d = want.diff(&got);
            if !d.is_empty() {
                violation(rep, "C04", ctx.seed, &format!("lost-more-than-uncommitted:{}", obs_diff_sig(&d)), format!("{}: the reopened instance differs from its state right after the last commit in {} queries", label, d.len()), json!({"network": c.net, "differences(after last commit vs reopened)": obs::diff_summary(&d, 10), "ops": ops_json(&c.ops)}));
                rpc::remove_dir(&work);
                return false;
            }
            rep.nontrivial(format!("{}:{}", c.victim_kind, k));
        }
        drop(i);
        rpc::remove_dir(&work);
        return true;
    }
    // commit / reorg victims: recover by reorg(N) for every durable N in the window
    let lo = (c.m - 10).max(0);
    let hi = c.hc.min(c.cap);
    let mut targets: Vec<i64> = (lo..=hi).collect();
    let max_targets = if ctx.thorough() { 5 } else { 3 };
    if targets.len() > max_targets {
        rng.shuffle(&mut targets);
        targets.truncate(max_targets);
        if !targets.contains(&hi) {
            targets[0] = hi;
        }
        if ctx.thorough() && !targets.contains(&lo) {
            targets[1] = lo;
        }
    }
    for n in targets {
        let img = work.join(format!("img-{}", n));
        if rpc::copy_dir(&dir, &img).is_err() {
            rep.inconclusive("copy of the crashed directory failed");
            continue;
        }
        let mut i = match Inst::open(&img) {
            Ok(i) => i,
            Err(e) => {
                violation(rep, "C04", ctx.seed, "reopen-failed", format!("{}: the database does not reopen: {}", label, e), json!({"network": c.net}));
                rpc::remove_dir(&work);
                return false;
            }
        };
        rep.evaluations += 1;
        let r = i.call("brc20_reorg", json!({"latest_valid_block_number": n}));
        if !r.is_ok() {
            violation(rep, "C04", ctx.seed, &format!("recovery-reorg-refused:{}", c.victim_kind), format!("{}: reorg({}) to a fully committed height inside the window was refused after reopening: {}", label, n, r.short()), json!({"network": c.net, "n": n, "last_committed": c.hc, "highest_ever": c.m, "ops": ops_json(&c.ops), "victim": c.victim}));
            rpc::remove_dir(&work);
            return false;
        }
        let Some(want) = fresh_obs_at(c, n as u64, fresh) else {
            rep.inconclusive(format!("fresh replay to {} did not reach that height", n));
            continue;
        };
        let mut u = c.universe.clone();
        u.max_height = (c.m.max(0) as u64).max(n as u64) + 1;
        let got = obs::observe(&mut i, &u, ObsMode::Boundary);
        let d = want.diff(&got);
        if !d.is_empty() {
            violation(rep, "C04", ctx.seed, &format!("recovery-state-differs:{}:{}", c.victim_kind, obs_diff_sig(&d)),
                format!("{}: after reopening and reorg({}) the instance differs from a fresh replay to block {} in {} queries", label, n, n, d.len()),
                json!({"network": c.net, "n": n, "kill_before_write": k, "write": c.writes.get(k as usize), "last_committed": c.hc, "highest_ever": c.m,
                       "differences(fresh vs recovered)": obs::diff_summary(&d, 12), "ops": ops_json(&c.ops), "victim": c.victim}));
            rpc::remove_dir(&work);
            return false;
        }
        if k >= 1 {
            rep.nontrivial(format!("{}:{}:{}", c.victim_kind, k, n));
        }
        // extend both by two blocks (sampled)
        if rng.chance(1, 3) {
            let fdir = fresh.get(&(n as u64)).map(|x| x.1.clone());
            if let Some(fdir) = fdir {
                let fcopy = work.join(format!("fresh-{}", n));
                if rpc::copy_dir(&fdir, &fcopy).is_ok() {
                    if let Ok(fi) = Inst::open(&fcopy) {
                        let mut rd = Driver::new(i);
                        rd.height = n;
                        rd.committed = n;
                        rd.max_ever = c.m;
                        let mut fd = Driver::new(fi);
                        fd.height = n;
                        let mut w = World::new(c.world_seed ^ (k as u64) ^ ((n as u64) << 20), rpc::chain_id_for(c.net));
                        w.profile.use_probe = false;
                        let mut r2 = rng.fork(5);
                        grow(&mut w, &mut rd, 2, CommitPolicy::Never, &mut r2);
                        let mut ok = true;
                        for (op, rr) in rd.log.clone().iter() {
                            let rf = fd.exec(op.clone());
                            if !same(rr, &rf) {
                                violation(rep, "C04", ctx.seed, &format!("recovery-extension-differs:{}", op.kind()), format!("{}: after recovery by reorg({}) a new call is answered differently than on a fresh replay", label, n), json!({"network": c.net, "op": op, "recovered": rr.short(), "fresh": rf.short()}));
                                ok = false;
                                break;
                            }
                        }
                        rep.count("extensions_compared", 1);
                        i = rd.inst;
                        drop(fd);
                        if !ok {
                            drop(i);
                            rpc::remove_dir(&work);
                            return false;
                        }
                    }
                }
            }
        }
        drop(i);
        rpc::remove_dir(&img);
    }
    rpc::remove_dir(&work);
    true
}

fn one_victim(ctx: &WorkerCtx, rep: &mut WorkerReport, case_seed: u64, kind: &str) {
    let (net, _) = net_for_shard(ctx.shard);
    let mut rng = Rng::new(case_seed);
    let mut w = World::new(case_seed, rpc::chain_id_for(net));
    w.profile.p_empty_block = 15;
    w.profile.max_txs_per_block = 4;
    let mut d = new_driver("C04");
    // committed history
    let pre = if kind == "reorg" && ctx.shard % 7 == 5 { rng.range(5, 9) } else { rng.range(2, 9) };
    grow(&mut w, &mut d, pre, CommitPolicy::Random(40), &mut rng);
    // (for the big-commit victim below: the contract is part of the committed history, so that it
    // still exists after the recovery reorg and its summing view can be asked)
    let big_commit = kind == "commit" && (ctx.shard % 7 == 2 || rng.chance(1, 5));
    let mut range_store: Option<String> = None;
    if big_commit && d.ntx == 0 {
        let b = w.block_ctx(&d);
        let dep = d.exec(Op::Deploy { pk: w.pks[0].clone(), data: hist::hx(&asm::rangestore_init()), enc: Enc::Hex, ctx: Ctx { ts: b.0, hash: b.1.clone(), idx: 0 }, iid: w.iid(), len: 1_000_000, txid: w.txid() });
        d.exec(Op::Finalise { ts: b.0, hash: b.1, count: 1 });
        range_store = hist::created_address(&dep);
    }
    d.exec(Op::Commit);
    let mut after_commit_obs = None;
    // uncommitted tail
    // (the reorg victim of shard 5 always removes three committed blocks and nothing else, so that
    // the loops over block-keyed rows have several iterations on disk)
    let deep_committed = kind == "reorg" && ctx.shard % 7 == 5;
    let tail = match kind {
        "commit" => rng.range(1, 6),
        "reorg" if deep_committed => 0,
        "reorg" => rng.range(0, 3),
        _ => rng.range(0, 2),
    };
    if kind == "finalise" || kind == "between-calls" {
        let mut u = universe(&[&d.log], d.height.max(0) as u64 + 4, Some(&w));
        u.max_height = d.height.max(0) as u64 + 4;
        after_commit_obs = Some((u.clone(), obs::observe(&mut d.inst, &u, ObsMode::Boundary)));
    }
    grow(&mut w, &mut d, tail, CommitPolicy::Never, &mut rng);
    // a long uncommitted tail (an indexer catching up mines thousands of blocks between commits):
    // nothing of it may be on disk when the process dies outside a commit
    if (kind == "between-calls" || kind == "finalise") && d.ntx == 0 && (rng.chance(1, 2) || ctx.shard % 7 == 6) {
        w.ts += 5;
        let n = rng.range(1030, 1600);
        d.exec(Op::Mine { n, ts: w.ts });
        rep.count("victims_with_over_1024_uncommitted_blocks", 1);
    }
    let mut extra_calls: Vec<(String, String)> = Vec::new();
    if let (Some(store), true) = (range_store.clone(), d.ntx == 0) {
        let n = rng.range(1100, 2300);
        let b = w.block_ctx(&d);
        d.exec(Op::Call { pk: w.pks[0].clone(), target: Target::Addr(store.clone()), data: Some(hist::hx(&asm::rangestore_call(false, 0, n, 7))), enc: Enc::Hex, ctx: Ctx { ts: b.0, hash: b.1.clone(), idx: 0 }, iid: w.iid(), len: 1_000_000, txid: w.txid() });
        d.exec(Op::Finalise { ts: b.0, hash: b.1, count: 1 });
        extra_calls.push((store.clone(), hist::hx(&asm::rangestore_call(true, 0, n, 0))));
        extra_calls.push((store, hist::hx(&asm::rangestore_call(true, n / 2, n, 0))));
        rep.count("commit_victims_with_over_1000_dirty_keys", 1);
    }
    let hc = d.committed;
    let victim = match kind {
        "commit" => Op::Commit,
        "reorg" => {
            let depth = if deep_committed { 3 } else { rng.range(1, 4) as i64 };
            let n = (d.height - depth).max((d.max_ever - 10).max(0)).max(0);
            Op::Reorg { n: n as u64 }
        }
        "finalise" => {
            let blk = w.block_ctx(&d);
            for _ in 0..rng.range(0, 2) {
                w.gen_tx(&mut d, &blk);
            }
            let blk = d.open.clone().unwrap_or(blk);
            Op::Finalise { ts: blk.0, hash: blk.1, count: d.ntx }
        }
        _ => Op::Raw { method: "eth_blockNumber".into(), params: json!([]) },
    };
    let ops: Vec<Op> = d.log.iter().map(|(o, _)| o.clone()).collect();
    let chain_before = d.chain.clone();
    let m = d.max_ever;
    let cap = match &victim {
        Op::Reorg { n } => *n as i64,
        _ => i64::MAX,
    };
    let mut universe_ = universe(&[&d.log], d.height.max(0) as u64 + 1, Some(&w));
    for c in &extra_calls {
        universe_.calls.insert(c.clone());
    }
    if let Some((u, _)) = &after_commit_obs {
        universe_ = u.clone();
    }
    let writes = if kind == "between-calls" { vec!["<no write: killed between two calls>".to_string()] } else { count_writes(&mut d, &victim) };
    drop_driver(d);
    if writes.is_empty() {
        rep.inconclusive(format!("victim {} issued no persistent write", kind));
        return;
    }
    let c = Case { net, ops, victim, victim_kind: kind.to_string(), hc, m, cap, chain_before, universe: universe_, world_seed: case_seed, writes: writes.clone() };
    rep.count(&format!("victims:{}", kind), 1);
    rep.count("writes_in_victims", writes.len() as u64);
    // crash points
    let total = writes.len() as i64;
    let mut points: Vec<i64> = Vec::new();
    if kind == "between-calls" {
        let mut fresh: BTreeMap<u64, (Obs, PathBuf)> = BTreeMap::new();
        let aco = after_commit_obs.map(|x| x.1);
        run_point(ctx, rep, &c, -2, &mut fresh, &aco, &mut rng);
        return;
    }
    if ctx.thorough() {
        let stride = (total / 70).max(1);
        points.extend((0..total).step_by(stride as usize));
    } else {
        // random points, each with its successor: the two writes of one key (history row, latest row)
        // are adjacent, and a crash exactly between them is the interesting one
        for _ in 0..5 {
            let k = rng.below(total.max(1) as u64) as i64;
            points.push(k);
            if k + 1 < total {
                points.push(k + 1);
            }
        }
    }
    // table boundaries: first write to each table, and the last write
    let mut seen = std::collections::BTreeSet::new();
    for (i, wname) in writes.iter().enumerate() {
        let table = wname.split(':').nth(1).unwrap_or("").to_string();
        if seen.insert(table) && (ctx.thorough() || i % 5 == 0) {
            points.push(i as i64);
        }
    }
    // every kind of write (site, table, operation) that occurs more than once: one of its later
    // occurrences too - a loop that dies after its first iteration leaves another state behind than one
    // that dies before it. Writes outside the versioned tables (block-keyed tables, the configuration
    // table) are few and always taken; the others with probability 1/5 per kind in the quick tier
    let mut by_kind: BTreeMap<&str, Vec<usize>> = BTreeMap::new();
    for (i, wname) in writes.iter().enumerate() {
        by_kind.entry(wname.as_str()).or_default().push(i);
    }
    for (label, idxs) in &by_kind {
        // (a victim with a thousand dirty keys is there for the sake of its later writes: every kind)
        if idxs.len() >= 2 && (ctx.thorough() || !label.starts_with("cached.") || !extra_calls.is_empty() || rng.chance(1, 5)) {
            let j = 1 + rng.below(idxs.len() as u64 - 1) as usize;
            points.push(idxs[j] as i64);
            if !label.starts_with("cached.") {
                points.push(idxs[0] as i64);
                points.push(*idxs.last().unwrap() as i64);
            }
        }
    }
    points.push(total - 1);
    points.sort();
    points.dedup();
    let mut fresh: BTreeMap<u64, (Obs, PathBuf)> = BTreeMap::new();
    let aco = after_commit_obs.map(|x| x.1);
    for k in points {
        if !run_point(ctx, rep, &c, k, &mut fresh, &aco, &mut rng) {
            break;
        }
    }
    for (_, (_, dir)) in fresh {
        rpc::remove_dir(&dir);
    }
    if rep.samples.len() < 3 {
        rep.sample(json!({"victim": kind, "case_seed": case_seed, "network": net, "history_ops": c.ops.len(), "last_committed_height": hc, "highest_block": m, "writes_of_victim": writes.len(), "some_writes": writes.iter().step_by((writes.len() / 6).max(1)).collect::<Vec<_>>()}));
    }
}

pub fn worker(ctx: &WorkerCtx) -> WorkerReport {
    if ctx.extra.first().map(|s| s.as_str()) == Some("crash") {
        child(ctx);
        unreachable!();
    }
    let (net, traces) = net_for_shard(ctx.shard);
    crate::setup_env(net, traces);
    let mut rep = WorkerReport::default();
    let mut rng = ctx.rng();
    let kinds = ["commit", "reorg", "commit", "finalise", "commit", "reorg", "between-calls"];
    let n = if ctx.thorough() { 2 } else { 1 };
    for j in 0..n {
        let kind = kinds[((ctx.shard + j * 3) % kinds.len() as u64) as usize];
        let cs = rng.next();
        one_victim(ctx, &mut rep, cs, kind);
    }
    let _ = (Path::new("."), Resp::Timeout);
    rep
}
