//! C01 — an accepted reorg restores exactly the state as of the chosen block.

use serde_json::json;

use super::common::*;
use crate::asm;
use crate::hist::{self, Ctx, Driver, Enc, Op, Target, World};
use crate::obs::{self, ObsMode};
use crate::report::{Spec, WorkerReport};
use crate::rpc::{self, Resp};
use crate::WorkerCtx;

pub fn spec() -> Spec {
    Spec {
        prop: "C01",
        level: "exploration",
        rule: "Chains of reorg rounds on generated histories (all op kinds, commits at random boundaries, clearCaches/reopen). Per round: acceptance is predicted by a model (accept iff N <= height and N + 10 >= highest block ever finalised on that directory); an accepted reorg is compared, over the universe of all identifiers incl. orphaned ones, with a fresh instance fed only the surviving history up to N, then both are extended with the same new blocks (re-touching orphaned keys) and compared again; a refused reorg must leave Obs unchanged. One shard in twelve also rolls back a block that rewrote all of more than 65 536 storage slots of one contract and checks every slot through a summing view. Non-trivial = accepted reorg whose orphaned suffix had >=1 successful transaction; distinct by (history digest, N).",
        assumptions: vec![
            "the fresh twin has a smaller 'highest block ever finalised'; acceptance is judged against the model only, never across twins".into(),
            "Obs = public read surface; bugs shared by the rolled-back and the fresh instance are invisible (C13 checks the table level against a model)".into(),
        ],
        exhaustive: false,
        min_nontrivial: 2,
    }
}

fn pick_target(rng: &mut crate::rng::Rng, h: i64, m: i64) -> u64 {
    // bias to the window edges relative to m (highest ever) and h (current)
    let cands: Vec<i64> = vec![h + 1, h, h - 1, h - 2, h - 3, h - 5, h - 9, h - 10, h - 11, h - 12, m - 9, m - 10, m - 11, m - 12, 0, 1];
    // after an earlier reorg the highest block ever finalised is above the height: the two edges of
    // the window are then different places, and the one relative to the highest block decides
    if m > h && rng.chance(1, 2) {
        return (*rng.pick(&[m - 10, m - 11])).max(0) as u64;
    }
    let c = *rng.pick(&cands);
    c.max(0) as u64
}

pub fn one_chain(ctx: &WorkerCtx, rep: &mut WorkerReport, case_seed: u64, rounds: u64) {
    let (net, _) = net_for_shard(ctx.shard);
    let mut rng = crate::rng::Rng::new(case_seed);
    let mut w = World::new(case_seed, rpc::chain_id_for(net));
    // chains of 65 000+ blocks (a gigabyte per uncommitted instance, and every round replays them on a
    // fresh twin): one worker in eight draws them
    let scale = scale_world(&mut w, case_seed, true, ctx.thorough() && ctx.shard % 8 == 3);
    rep.set_add("scale_profiles", scale);
    w.profile.p_empty_block = 25;
    let mut r = new_driver("C01");
    let first = rng.range(3, 26);
    grow(&mut w, &mut r, first, CommitPolicy::Random(30), &mut rng);
    for round in 0..rounds {
        if round > 0 {
            let more = rng.range(1, 9);
            grow(&mut w, &mut r, more, CommitPolicy::Random(30), &mut rng);
        }
        if rng.chance(1, 8) && r.committed >= 0 {
            r.exec(if rng.chance(1, 2) { Op::Clear } else { Op::Reopen });
        }
        if rng.chance(1, 3) {
            r.exec(Op::Commit);
        }
        // a third of the reorgs arrive while the next block is open with nothing but parked
        // (future-nonce) signed transactions: such a block has no waiting transaction, the reorg is
        // accepted, and the parked entries belong to a block above N
        let parked = if rng.chance(1, 3) { w.park_only(&mut r) } else { 0 };
        let h = r.height;
        let m = r.max_ever;
        // heights at which a waiting transaction expired (parked ten blocks earlier and never drained):
        // a reorg to exactly such a height must leave it expired
        let expiry_heights: Vec<u64> = r.chain.iter().zip(r.chain_resp.iter()).enumerate()
            .filter(|(_, (ops, resps))| ops.iter().zip(resps.iter()).any(|(o, rs)| matches!(o, Op::Transact { .. }) && rs.is_ok() && hist::receipts_in(rs).is_empty()))
            .map(|(i, _)| i as u64 + 10)
            .filter(|x| (*x as i64) <= h && (*x as i64) + 10 >= m)
            .collect();
        let n = if parked > 0 && rng.chance(1, 2) {
            h.max(0) as u64
        } else if !expiry_heights.is_empty() && rng.chance(1, 3) {
            rep.count("reorgs_to_an_expiry_height", 1);
            *rng.pick(&expiry_heights)
        } else {
            pick_target(&mut rng, h, m)
        };
        let expect_accept = (n as i64) <= h && (n as i64) + 10 >= m;
        let orphan_start = r.log.len();
        // which ops are orphaned by this reorg: those of blocks > n on the surviving chain
        let orphaned_ops: Vec<Op> = r.chain.iter().skip(n as usize + 1).flatten().cloned().collect();
        let orphan_log: Vec<(Op, Resp)> = r.log.iter().filter(|(o, _)| orphaned_ops.contains(o)).cloned().collect();
        let orphan_had_tx = has_successful_tx(&orphan_log);
        let u_before = {
            let mut u = universe(&[&r.log], h.max(0) as u64, Some(&w));
            u.max_height = h.max(0) as u64;
            u
        };
        let before = if !expect_accept { Some(obs::observe(&mut r.inst, &u_before, ObsMode::Boundary)) } else { None };
        let resp = r.exec(Op::Reorg { n });
        rep.evaluations += 1;
        rep.count("reorgs", 1);
        rep.set_add("depths", format!("h-n={},m-n={}", h - n as i64, m - n as i64));
        let hd = digest_ops(&r.prefix_ops(h.max(0) as u64));
        match (&resp, expect_accept) {
            (Resp::Ok(_), false) => {
                violation(rep, "C01", ctx.seed, if (n as i64) > h { "accepted-above-height" } else { "accepted-outside-window" },
                    format!("reorg({}) was accepted although height={} and highest block ever finalised={} (window is 10)", n, h, m),
                    json!({"case_seed": case_seed, "network": net, "n": n, "height": h, "max_ever": m, "history": log_json(&r.log, 600)}));
                drop_driver(r);
                return;
            }
            (Resp::Err { message, .. }, true) => {
                violation(rep, "C01", ctx.seed, "refused-inside-window",
                    format!("reorg({}) was refused ({}) although height={} and highest block ever finalised={}", n, message, h, m),
                    json!({"case_seed": case_seed, "network": net, "n": n, "height": h, "max_ever": m, "history": log_json(&r.log, 600)}));
                drop_driver(r);
                return;
            }
            (Resp::Err { .. }, false) => {
                // refused: nothing may have changed
                rep.count("refused", 1);
                let after = obs::observe(&mut r.inst, &u_before, ObsMode::Boundary);
                let d = before.unwrap().diff(&after);
                if !d.is_empty() {
                    violation(rep, "C01", ctx.seed, &format!("refused-reorg-changed-state:{}", obs_diff_sig(&d)),
                        format!("a refused reorg({}) changed the answers of {} queries", n, d.len()),
                        json!({"case_seed": case_seed, "network": net, "n": n, "differences(before vs after)": obs::diff_summary(&d, 12), "history": log_json(&r.log, 600)}));
                    drop_driver(r);
                    return;
                }
                continue;
            }
            (Resp::Ok(_), true) => {}
            (other, _) => {
                rep.inconclusive(format!("reorg answered {}", other.short()));
                drop_driver(r);
                return;
            }
        }
        rep.count("accepted", 1);
        if orphan_had_tx && (n as i64) < h {
            rep.nontrivial(format!("{}:{}", hd, n));
        }
        if parked > 0 {
            rep.nontrivial(format!("{}:{}:parked-open-block", hd, n));
            rep.count("reorgs_with_parked_open_block", 1);
        }
        // fresh twin fed only the surviving history up to n
        let mut f = new_driver("C01");
        for op in r.prefix_ops(n) {
            f.exec(op);
        }
        let mut u = universe(&[&r.log, &f.log], (h.max(0) as u64).max(n), Some(&w));
        u.max_height = (h.max(0) as u64).max(n);
        let (or, of) = observe_pair(&mut r.inst, &mut f.inst, &u, ObsMode::Boundary);
        rep.count("obs_entries", or.len() as u64);
        let d = or.diff(&of);
        if !d.is_empty() {
            violation(rep, "C01", ctx.seed, &format!("reorg-state-differs:{}", obs_diff_sig(&d)),
                format!("after reorg({}) from height {} the instance answers {} queries differently from a fresh instance fed only the history up to block {}", n, h, d.len(), n),
                json!({"case_seed": case_seed, "network": net, "round": round, "n": n, "height": h, "max_ever": m,
                       "differences(reorged vs fresh)": obs::diff_summary(&d, 14), "history": log_json(&r.log, 800)}));
            drop_driver(r);
            drop_driver(f);
            return;
        }
        // extend both identically (adaptive generation on R, replay on F)
        let ext_start = r.log.len();
        let ext_blocks = rng.range(2, 4);
        grow(&mut w, &mut r, ext_blocks, CommitPolicy::Random(25), &mut rng);
        let ext: Vec<(Op, Resp)> = r.log[ext_start..].to_vec();
        for (op, rr) in &ext {
            let rf = f.exec(op.clone());
            if !same(rr, &rf) {
                violation(rep, "C01", ctx.seed, &format!("extension-differs:{}", op.kind()),
                    format!("after reorg({}) the same new call is answered differently by the rolled-back instance and by a fresh replay", n),
                    json!({"case_seed": case_seed, "network": net, "n": n, "op": op, "reorged": rr.short(), "fresh": rf.short(), "history": log_json(&r.log, 800)}));
                drop_driver(r);
                drop_driver(f);
                return;
            }
        }
        let mut u2 = universe(&[&r.log, &f.log], r.height.max(0) as u64, Some(&w));
        u2.max_height = (r.height.max(0) as u64).max(h.max(0) as u64);
        let (or, of) = observe_pair(&mut r.inst, &mut f.inst, &u2, ObsMode::Boundary);
        let d = or.diff(&of);
        if !d.is_empty() {
            violation(rep, "C01", ctx.seed, &format!("extension-state-differs:{}", obs_diff_sig(&d)),
                format!("{} blocks after reorg({}) the instance answers {} queries differently from the fresh twin", ext_blocks, n, d.len()),
                json!({"case_seed": case_seed, "network": net, "n": n, "differences(reorged vs fresh)": obs::diff_summary(&d, 14), "history": log_json(&r.log, 800)}));
            drop_driver(r);
            drop_driver(f);
            return;
        }
        if rep.samples.len() < 3 {
            rep.sample(json!({"case_seed": case_seed, "network": net, "round": round, "height": h, "max_ever": m, "reorg_to": n,
                "orphaned_ops": orphaned_ops.len(), "orphan_had_successful_tx": orphan_had_tx, "obs_entries": or.len(), "extension_ops": ext.len()}));
        }
        drop_driver(f);
        let _ = orphan_start;
    }
    drop_driver(r);
}

/// Many keys: one contract with more than 65 536 storage slots, all rewritten in an orphaned block.
/// After the reorg every slot must be back (checked through a summing view of the contract, against
/// the value the history implies and against a fresh twin), also after extending both.
fn many_slots_case(ctx: &WorkerCtx, rep: &mut WorkerReport, case_seed: u64) {
    let (net, _) = net_for_shard(ctx.shard);
    let mut rng = crate::rng::Rng::new(case_seed);
    let mut r = new_driver("C01");
    r.exec(Op::Init { hash: hist::ZERO_HASH.into(), ts: 1, height: 0 });
    let pk = "5120a9a9a9a9a9a9a9a9a9a9a9a9a9a9a9a9a9a9a9a9a9a9a9a9a9a9a9a9a9a9a9".to_string();
    let block = |r: &mut Driver, uniq: u64, to: Option<&str>, data: Vec<u8>| -> Resp {
        let h = hist::bh(0xc01_5107 + uniq);
        let ctx = Ctx { ts: 10 + uniq, hash: h.clone(), idx: 0 };
        let iid = format!("c01-slots-{}i0", uniq);
        let resp = match to {
            None => r.exec(Op::Deploy { pk: pk.clone(), data: hist::hx(&data), enc: Enc::Hex, ctx, iid, len: 1_000_000, txid: hist::ZERO_HASH.into() }),
            Some(t) => r.exec(Op::Call { pk: pk.clone(), target: Target::Addr(t.to_string()), data: Some(hist::hx(&data)), enc: Enc::Hex, ctx, iid, len: 1_000_000, txid: hist::ZERO_HASH.into() }),
        };
        r.exec(Op::Finalise { ts: 10 + uniq, hash: h, count: 1 });
        resp
    };
    let dep = block(&mut r, 1, None, asm::rangestore_init());
    let Some(store) = hist::created_address(&dep) else {
        rep.inconclusive("range-store deployment failed");
        drop_driver(r);
        return;
    };
    let n = 65_600 + rng.below(900);
    let ok = |x: &Resp| hist::receipts_in(x).first().map(|rc| rc["status"].as_str() == Some("0x1")).unwrap_or(false);
    if !ok(&block(&mut r, 2, Some(&store), asm::rangestore_call(false, 0, n, 1))) {
        rep.inconclusive("writing the slots failed");
        drop_driver(r);
        return;
    }
    let keep = r.height as u64;
    if rng.chance(2, 3) {
        r.exec(Op::Commit);
    }
    // orphaned blocks: everything rewritten, then a few slots once more
    let _ = block(&mut r, 3, Some(&store), asm::rangestore_call(false, 0, n, 2));
    if rng.chance(1, 2) {
        r.exec(Op::Commit);
    }
    let _ = block(&mut r, 4, Some(&store), asm::rangestore_call(false, rng.below(n - 600), 500, 3));
    let sum = |d: &mut Driver| -> Option<u128> {
        let mut total = 0u128;
        let mut at = 0u64;
        while at < n {
            let c = (n - at).min(30_000);
            match d.inst.call("eth_call", json!([{"to": store, "data": hist::hx(&asm::rangestore_call(true, at, c, 0))}])) {
                Resp::Ok(serde_json::Value::String(s)) => total += u128::from_str_radix(&s.trim_start_matches("0x")[32..], 16).ok()?,
                _ => return None,
            }
            at += c;
        }
        Some(total)
    };
    let before = sum(&mut r);
    let resp = r.exec(Op::Reorg { n: keep });
    rep.evaluations += 1;
    if !resp.is_ok() {
        violation(rep, "C01", ctx.seed, "refused-inside-window", format!("reorg({}) two blocks back was refused: {}", keep, resp.short()), json!({"case_seed": case_seed}));
        drop_driver(r);
        return;
    }
    let mut f = new_driver("C01");
    for op in r.prefix_ops(keep) {
        f.exec(op);
    }
    let check = |rep: &mut WorkerReport, r: &mut Driver, f: &mut Driver, want: u128, when: &str| -> bool {
        let (sr, sf) = (sum(r), sum(f));
        rep.evaluations += 1;
        if sr != Some(want) || sf != Some(want) {
            violation(rep, "C01", ctx.seed, "reorg-many-slots", format!("{}: the {} slots of the contract sum to {:?} on the rolled-back instance and {:?} on the fresh one; the history implies {}", when, n, sr, sf, want),
                json!({"case_seed": case_seed, "network": net, "slots": n, "sum_before_reorg": format!("{:?}", before)}));
            return false;
        }
        true
    };
    if check(rep, &mut r, &mut f, n as u128, "after the reorg") {
        // extend both identically
        let data = asm::rangestore_call(false, 5, 10, 9);
        let (a, b) = (block(&mut r, 5, Some(&store), data.clone()), block(&mut f, 5, Some(&store), data));
        if !same(&a, &b) {
            violation(rep, "C01", ctx.seed, "extension-differs:call", "after the reorg the same new call is answered differently by the rolled-back instance and by a fresh replay".into(), json!({"case_seed": case_seed, "reorged": a.short(), "fresh": b.short()}));
        } else if check(rep, &mut r, &mut f, n as u128 + 80, "one block after the reorg") {
            rep.nontrivial(format!("many-slots:{}", n));
            rep.count("many_slots_cases", 1);
        }
    }
    drop_driver(r);
    drop_driver(f);
}

/// A transaction the EVM refuses (allowance below the intrinsic cost) is recorded as failed and does
/// not use up its nonce; the identical call sent again later is the same transaction (same hash)
/// recorded a second time. Rolling back to a block between the two must bring back the first record.
fn refused_retry_case(ctx: &WorkerCtx, rep: &mut WorkerReport, case_seed: u64) {
    let (net, _) = net_for_shard(ctx.shard);
    let mut rng = crate::rng::Rng::new(case_seed ^ 0x4ef);
    let mut r = new_driver("C01");
    r.exec(Op::Init { hash: hist::ZERO_HASH.into(), ts: 1, height: 0 });
    let pk = "5120b7b7b7b7b7b7b7b7b7b7b7b7b7b7b7b7b7b7b7b7b7b7b7b7b7b7b7b7b7b7b7".to_string();
    let pk2 = "5120c8c8c8c8c8c8c8c8c8c8c8c8c8c8c8c8c8c8c8c8c8c8c8c8c8c8c8c8c8c8c8".to_string();
    let mut uniq = 0u64;
    let mut block = |r: &mut Driver, pk: &str, to: Option<&str>, data: &[u8], len: u64| -> Resp {
        uniq += 1;
        let h = hist::bh(0xc01_4ef0 + uniq);
        let c = Ctx { ts: 10 + uniq, hash: h.clone(), idx: 0 };
        let iid = format!("c01-refused-{}i0", uniq);
        let resp = match to {
            None => r.exec(Op::Deploy { pk: pk.to_string(), data: hist::hx(data), enc: Enc::Hex, ctx: c, iid, len, txid: hist::ZERO_HASH.into() }),
            Some(t) => r.exec(Op::Call { pk: pk.to_string(), target: Target::Addr(t.to_string()), data: Some(hist::hx(data)), enc: Enc::Hex, ctx: c, iid, len, txid: hist::ZERO_HASH.into() }),
        };
        let n = r.ntx;
        r.exec(Op::Finalise { ts: 10 + uniq, hash: h, count: n });
        resp
    };
    let dep = block(&mut r, &pk2, None, &asm::tool_init(), 1_000_000);
    let Some(tool) = hist::created_address(&dep) else {
        rep.inconclusive("tool deployment failed");
        drop_driver(r);
        return;
    };
    let data = asm::tool_call(asm::OP_INC, &[asm::word_u64(1)], &[]);
    // first attempt: refused
    block(&mut r, &pk, Some(&tool), &data, rng.below(2));
    let b1 = r.height as u64;
    for _ in 0..rng.below(3) {
        block(&mut r, &pk2, Some(&tool), &data, 100_000);
    }
    if rng.chance(3, 4) {
        r.exec(Op::Commit);
    }
    for _ in 0..rng.below(2) {
        block(&mut r, &pk2, Some(&tool), &data, 100_000);
    }
    let before_retry = r.height as u64;
    // the identical call again: refused once more, or executed this time
    block(&mut r, &pk, Some(&tool), &data, if rng.chance(1, 2) { rng.below(2) } else { 100_000 });
    for _ in 0..rng.below(2) {
        block(&mut r, &pk2, Some(&tool), &data, 100_000);
    }
    if rng.chance(1, 3) {
        r.exec(Op::Commit);
    }
    let keep = rng.range(b1, before_retry);
    if (r.height as u64) - keep > 9 {
        drop_driver(r);
        return;
    }
    let from = r.height;
    let resp = r.exec(Op::Reorg { n: keep });
    rep.evaluations += 1;
    if !resp.is_ok() {
        violation(rep, "C01", ctx.seed, "refused-inside-window", format!("reorg({}) from height {} was refused: {}", keep, from, resp.short()), json!({"case_seed": case_seed}));
        drop_driver(r);
        return;
    }
    let mut f = new_driver("C01");
    for op in r.prefix_ops(keep) {
        f.exec(op);
    }
    let mut u = universe(&[&r.log], from.max(0) as u64 + 1, None);
    u.max_height = from.max(0) as u64 + 1;
    let (or, of) = observe_pair(&mut r.inst, &mut f.inst, &u, ObsMode::Boundary);
    let d = or.diff(&of);
    if !d.is_empty() {
        violation(rep, "C01", ctx.seed, &format!("reorg-state-differs:{}", obs_diff_sig(&d)),
            format!("after reorg({}) from height {} (a refused transaction of block {} was sent again above the target) the instance answers {} queries differently from a fresh instance fed only the history up to block {}", keep, from, b1, d.len(), keep),
            json!({"case_seed": case_seed, "network": net, "differences(rolled-back vs fresh)": obs::diff_summary(&d, 10), "history": log_json(&r.log, 60)}));
    } else {
        rep.nontrivial(format!("refused-then-retried:{}", if keep == b1 { "target-is-the-refusing-block" } else { "target-between" }));
    }
    drop_driver(r);
    drop_driver(f);
}

pub fn worker(ctx: &WorkerCtx) -> WorkerReport {
    if ctx.shard == 7 {
        FORCE_HUGE.store(true, std::sync::atomic::Ordering::Relaxed);
    }
    let (net, traces) = net_for_shard(ctx.shard);
    crate::setup_env(net, traces);
    let mut rep = WorkerReport::default();
    let mut rng = ctx.rng();
    let (mut chains, rounds) = if ctx.thorough() { (10, 5) } else { (2, 3) };
    if ctx.thorough() && ctx.shard % 8 == 3 {
        chains = 5; // the workers that may draw 65 000-block chains
    }
    if let Some(cs) = std::env::var("VH_CASE_SEED").ok().and_then(|s| s.parse::<u64>().ok()) {
        // debugging aid: one recorded case only
        one_chain(ctx, &mut rep, cs, rounds);
        return rep;
    }
    for _ in 0..chains {
        let cs = rng.next();
        one_chain(ctx, &mut rep, cs, rounds);
    }
    if ctx.shard % 12 == 5 {
        let cs = rng.next();
        many_slots_case(ctx, &mut rep, cs);
    }
    for _ in 0..(if ctx.thorough() { 6 } else { 1 }) {
        let cs = rng.next();
        refused_retry_case(ctx, &mut rep, cs);
    }
    rep.set_add("networks", net);
    rep
}

#[allow(dead_code)]
fn _unused(_: &Driver) {}
