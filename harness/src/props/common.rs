//! Shared helpers for property workers.

use serde_json::{json, Value};

use crate::hist::{self, Driver, Op, World};
use crate::obs::{self, Obs, ObsMode, Universe};
use crate::report::{Violation, WorkerReport};
use crate::rng::Rng;
use crate::rpc::{self, Inst, Resp};

pub const NETS: [(&str, bool); 3] = [("regtest", true), ("signet", true), ("bitcoin", false)];

/// Network for a shard: regtest (Prague, RLP hashes), signet (Cancun at low heights), bitcoin
/// (mainnet chain id, signing-hash tx hashes, Cancun at low heights, traces off).
pub fn net_for_shard(shard: u64) -> (&'static str, bool) {
    NETS[(shard % 3) as usize]
}

/// First block under the Prague rules (README: the current-txid helper "coincides with the Prague
/// upgrade activation"; the engine selects the rule set of the block being built).
pub fn prague_height(net: &str) -> u64 {
    match net {
        "signet" => 275_000,
        "bitcoin" | "mainnet" => 923_369,
        _ => 0,
    }
}

pub fn prague_at(net: &str, number: u64) -> bool {
    number >= prague_height(net)
}

/// Mine empty blocks 0..base-1 (committing in chunks so that memory stays flat), as an indexer
/// does before the first programmable block. Returns false when mining was refused.
pub fn mine_to(d: &mut Driver, base: u64) -> bool {
    d.mine_to(base)
}

/// Set by a worker whose shard is the designated "huge blocks" shard of its check.
pub static FORCE_HUGE: std::sync::atomic::AtomicBool = std::sync::atomic::AtomicBool::new(false);

/// Scale profile for a case: most cases stay small; some get blocks of 257..300 transactions (indices
/// cross one byte), a chain initialised at height 250 or 65 530 (heights cross one / two bytes during
/// the history; the latter only where `allow_deep`), or odd identifiers (long, quotes, non-ASCII, NUL).
pub fn scale_world(w: &mut World, case_seed: u64, allow_base: bool, allow_deep: bool) -> &'static str {
    let mut r = Rng::new(case_seed ^ 0x5ca1e);
    // one shard of every run is pinned to blocks of more than a thousand transactions
    if FORCE_HUGE.load(std::sync::atomic::Ordering::Relaxed) {
        w.profile.p_big_block = 40;
        w.profile.huge_pct = 100;
        w.profile.big_blocks_left = 1;
        return "huge-blocks";
    }
    match r.below(12) {
        0 => {
            w.profile.p_big_block = 10;
            "big-blocks"
        }
        1 if allow_base => {
            w.base = 250 + r.below(4);
            "base-250"
        }
        2 if allow_base && allow_deep => {
            if r.chance(1, 2) {
                w.base = 65_530 + r.below(4);
                "base-65530"
            } else {
                // transactions below height ~5 and again above height 65 536 + ~5
                w.profile.gap = Some((3 + r.below(3), 65_536 + r.below(3)));
                "gap-65536"
            }
        }
        3 => {
            w.profile.p_odd_ids = 30;
            "odd-ids"
        }
        4 => {
            w.profile.p_big_block = 6;
            w.profile.p_odd_ids = 10;
            if allow_base {
                w.base = 253;
            }
            "mixed"
        }
        _ => "small",
    }
}

pub fn new_driver(tag: &str) -> Driver {
    let dir = rpc::fresh_dir(tag);
    Driver::new(Inst::open(&dir).expect("open instance"))
}

pub fn drop_driver(d: Driver) {
    let dir = d.inst.dir.clone();
    drop(d);
    rpc::remove_dir(&dir);
}

#[derive(Clone, Copy, Debug)]
pub enum CommitPolicy {
    Never,
    Every,
    EveryK(u64),
    Random(u64), // percent
}

impl CommitPolicy {
    pub fn wants(&self, boundary_no: u64, rng: &mut Rng) -> bool {
        match self {
            CommitPolicy::Never => false,
            CommitPolicy::Every => true,
            CommitPolicy::EveryK(k) => boundary_no % k == k - 1,
            CommitPolicy::Random(p) => rng.chance(*p, 100),
        }
    }
    pub fn name(&self) -> String {
        format!("{:?}", self)
    }
}

/// Grow the chain by `blocks` generated blocks with the given commit policy.
pub fn grow(w: &mut World, d: &mut Driver, blocks: u64, policy: CommitPolicy, rng: &mut Rng) {
    for i in 0..blocks {
        w.gen_block(d);
        if policy.wants(i, rng) {
            d.exec(Op::Commit);
        }
    }
}

pub fn same(a: &Resp, b: &Resp) -> bool {
    obs::canon_resp(a) == obs::canon_resp(b)
}

pub fn universe(logs: &[&[(Op, Resp)]], max_height: u64, w: Option<&World>) -> Universe {
    let mut u = Universe::new();
    for l in logs {
        u.absorb_log(l);
    }
    u.max_height = max_height;
    if let Some(w) = w {
        u.min_height = w.base.saturating_sub(2);
        for s in &w.slots {
            u.add_slot_u64(*s);
        }
        let mut b = 0x1000u64;
        while b <= w.probe_base && b < 0x1000 + 0x20 * 14 {
            for k in 0..15 {
                u.add_slot_u64(b + k);
            }
            b += 0x20;
        }
        for t in &w.tools {
            u.addrs.insert(t.to_lowercase());
        }
        for t in &w.batchers {
            u.addrs.insert(t.to_lowercase());
        }
        for s in &w.signers {
            u.addrs.insert(hist::addr_hex(&s.addr));
        }
        for pk in &w.pks {
            for t in &w.tickers {
                u.pk_tickers.insert((pk.clone(), t.clone()));
            }
        }
    }
    u
}

pub fn ops_json(ops: &[Op]) -> Value {
    serde_json::to_value(ops).unwrap_or(Value::Null)
}

pub fn log_json(log: &[(Op, Resp)], last: usize) -> Value {
    let start = log.len().saturating_sub(last);
    Value::Array(log[start..].iter().map(|(o, r)| json!({"op": o, "resp": r.short()})).collect())
}

pub fn violation(rep: &mut WorkerReport, prop: &str, seed: u64, sig: &str, what: String, detail: Value) {
    // A call that did not return within the harness's wall-clock limit decides nothing on a loaded
    // machine. The checks that judge hangs (C08, C09, C11) bring their own witnesses (logical hang
    // flags, a wedged-server probe, the lock-event log); everywhere else a response that is just
    // "timed out" makes the case inconclusive, never a violation.
    if !matches!(prop, "C08" | "C09" | "C11") {
        let t = "{\"timeout\":true}";
        if what.contains(t) || serde_json::to_string(&detail).map(|d| d.replace('\\', "").contains(t)).unwrap_or(false) {
            rep.inconclusive(format!("{}: a call hit the harness's wall-clock limit ({})", sig, what.chars().take(160).collect::<String>()));
            return;
        }
    }
    let replay = crate::report::write_replay(prop, seed, &json!({"property": prop, "seed": seed, "signature": sig, "what": what, "detail": detail}));
    rep.violations.push(Violation { sig: sig.to_string(), what, replay });
}

/// Compare two observations; on difference classify by the first differing query's method.
pub fn obs_diff_sig(d: &[(String, Value, Value)]) -> String {
    let mut methods: Vec<String> = d.iter().map(|(k, _, _)| k.split(' ').next().unwrap_or("").to_string()).collect();
    methods.sort();
    methods.dedup();
    methods.join("+")
}

pub fn observe_pair(a: &mut Inst, b: &mut Inst, u: &Universe, mode: ObsMode) -> (Obs, Obs) {
    (obs::observe(a, u, mode), obs::observe(b, u, mode))
}

/// Did the ops of this slice contain a successful state-changing transaction?
pub fn has_successful_tx(log: &[(Op, Resp)]) -> bool {
    log.iter().any(|(op, r)| op.is_tx() && hist::receipts_in(r).iter().any(|x| x.get("status").and_then(|s| s.as_str()) == Some("0x1")))
}

pub fn digest_ops(ops: &[Op]) -> String {
    use sha2::{Digest, Sha256};
    let mut h = Sha256::new();
    h.update(serde_json::to_string(ops).unwrap_or_default().as_bytes());
    hex::encode(&h.finalize()[..8])
}
