//! C20 — a database only reopens under the configuration it was created with.

use std::path::{Path, PathBuf};
use std::time::Duration;

use brc20_prog::verif::Encode;
use jsonrpsee::server::ServerHandle;
use serde_json::json;

use super::common::*;
use crate::asm;
use crate::hist;
use crate::http;
use crate::obs::{self, ObsMode, Universe};
use crate::report::{Spec, WorkerReport};
use crate::rpc::{self, Inst};
use crate::WorkerCtx;

pub fn spec() -> Spec {
    Spec {
        prop: "C20",
        level: "exploration",
        rule: "Expected-outcome table (the configuration-pair table is enumerated completely; tamper values and life-cycle chains are samples): the public start() succeeds on a directory iff network string, trace flag, protocol version and database version recorded at creation equal the reopening ones. Enumerated: every ordered pair over networks {mainnet, bitcoin, signet, testnet, testnet4, regtest, unknown} x trace {on, off} (196 pairs; fresh and populated directories), seeded life-cycle chains (create, then 3-6 reopenings under the same or another configuration with growth in between; a refused start must leave the four records untouched), tamper cases produced by editing the config RocksDB directly (each of the four records deleted, altered or replaced by one of 16 near misses of the recorded value - case, truncation, padding, +-1, leading zero/sign, negation -, whole config table removed, a control rewrite with equal values), and foreign directories (stray file, stray sub-directory, only another table, empty, not yet existing, a file). On success Obs over HTTP must equal the one taken before the stop. Each start() runs in the worker process on a loopback port. Non-trivial = case whose expected outcome is 'refuse'; distinct by (case kind, creating config, reopening config).",
        assumptions: vec!["version mismatches are produced by editing the recorded versions, since one build has one protocol/db version".into()],
        exhaustive: false,
        min_nontrivial: 2,
    }
}

// the empty name is a legal configuration for a node that runs without a Bitcoin RPC connection
// (FAIL_ON_BITCOIN_RPC_ERROR=false); it is one more network a directory can be created or reopened under
const NETWORKS: [&str; 8] = ["mainnet", "bitcoin", "signet", "testnet", "testnet4", "regtest", "unknown", ""];

#[derive(Clone, Debug, PartialEq)]
enum Outcome {
    Started,
    ConfigRefused(String),
    OtherError(String),
}

struct Server {
    handle: ServerHandle,
    addr: String,
}

fn cfg(network: &str, traces: bool, dir: &Path, port: u16, btc: &str) -> brc20_prog::Brc20ProgConfig {
    let mut c = rpc::make_config(network, traces, btc, dir.to_str().unwrap());
    c.brc20_prog_rpc_server_url = format!("127.0.0.1:{}", port);
    if network.is_empty() {
        c.fail_on_bitcoin_rpc_error = false;
    }
    c
}

fn try_start(network: &str, traces: bool, dir: &Path, btc: &str) -> (Outcome, Option<Server>) {
    for attempt in 0..30 {
        let port = http::free_port();
        let c = cfg(network, traces, dir, port, btc);
        let r = rpc::rt().block_on(async { brc20_prog::start(c).await.map_err(|e| e.to_string()) });
        match r {
            Ok(handle) => return (Outcome::Started, Some(Server { handle, addr: format!("127.0.0.1:{}", port) })),
            Err(e) => {
                if e.contains("Config for") {
                    return (Outcome::ConfigRefused(e), None);
                }
                let transient = e.to_lowercase().contains("lock") || e.contains("temporarily unavailable") || e.contains("in use");
                if transient && attempt < 29 {
                    std::thread::sleep(Duration::from_millis(100));
                    continue;
                }
                return (Outcome::OtherError(e), None);
            }
        }
    }
    (Outcome::OtherError("retries exhausted".into()), None)
}

fn stop(s: Server) {
    let _ = s.handle.stop();
    rpc::rt().block_on(async { s.handle.stopped().await });
}

fn populate(s: &Server, dir: &Path) -> Universe {
    let mut i = Inst::over_http(dir, &s.addr, vec![]);
    i.call("brc20_mine", json!({"block_count": 2, "timestamp": 5}));
    let pk = "5120c2c2c2c2c2c2c2c2c2c2c2c2c2c2c2c2c2c2c2c2c2c2c2c2c2c2c2c2c2c2c2c2";
    let h = crate::hist::bh((0xc20u64) as u64);
    let r = i.call("brc20_deploy", json!({"from_pkscript": pk, "data": hist::hx(&asm::tool_init_with_ctor()), "timestamp": 6, "hash": h, "tx_idx": 0, "inscription_id": "c20-tool", "inscription_byte_len": 100000, "op_return_tx_id": hist::ZERO_HASH}));
    i.call("brc20_finaliseBlock", json!({"timestamp": 6, "hash": h, "block_tx_count": 1}));
    i.call("brc20_commitToDatabase", json!([]));
    let mut u = Universe::new();
    if let rpc::Resp::Ok(v) = &r {
        u.absorb_value(v);
    }
    u.iids.insert("c20-tool".into());
    u.max_height = 3;
    u
}

fn observe_http(s: &Server, dir: &Path, u: &Universe) -> obs::Obs {
    let mut i = Inst::over_http(dir, &s.addr, vec![]);
    obs::observe(&mut i, u, ObsMode::Boundary)
}

fn encode_str(s: &str) -> Vec<u8> {
    s.to_string().encode_vec()
}

fn edit_config(dir: &Path, key: &str, new: Option<&str>) -> Result<(), String> {
    let mut opts = rocksdb::Options::default();
    opts.create_if_missing(false);
    let db = rocksdb::DB::open(&opts, dir.join("config")).map_err(|e| e.to_string())?;
    match new {
        Some(v) => db.put(encode_str(key), encode_str(v)).map_err(|e| e.to_string())?,
        None => db.delete(encode_str(key)).map_err(|e| e.to_string())?,
    }
    db.flush().map_err(|e| e.to_string())?;
    Ok(())
}

fn read_config(dir: &Path, key: &str) -> Option<String> {
    let opts = rocksdb::Options::default();
    let db = rocksdb::DB::open_for_read_only(&opts, dir.join("config"), false).ok()?;
    let v = db.get(encode_str(key)).ok()??;
    // String encoding: u32 length + bytes
    String::from_utf8(v[4..].to_vec()).ok()
}

const NEAR: [&str; 16] = ["upper", "capital", "drop-last", "drop-first", "trail-space", "lead-space", "trail-nl", "trail-nul", "plus-one", "minus-one", "lead-zero", "plus-sign", "dot-zero", "empty", "negated", "numeric-bool"];

/// A value close to the recorded one; None when the variant does not differ from it.
fn near_variant(orig: &str, name: &str) -> Option<String> {
    let num = orig.parse::<i64>().ok();
    let v = match name {
        "upper" => orig.to_uppercase(),
        "capital" => {
            let mut c = orig.chars();
            match c.next() {
                Some(f) => f.to_uppercase().collect::<String>() + c.as_str(),
                None => String::new(),
            }
        }
        "drop-last" => orig[..orig.len().saturating_sub(1)].to_string(),
        "drop-first" => orig.chars().skip(1).collect(),
        "trail-space" => format!("{} ", orig),
        "lead-space" => format!(" {}", orig),
        "trail-nl" => format!("{}\n", orig),
        "trail-nul" => format!("{}\0", orig),
        "plus-one" => (num? + 1).to_string(),
        "minus-one" => (num? - 1).to_string(),
        "lead-zero" => format!("0{}", num?),
        "plus-sign" => format!("+{}", num?),
        "dot-zero" => format!("{}.0", num?),
        "empty" => String::new(),
        "negated" => match orig {
            "true" => "false".into(),
            "false" => "true".into(),
            _ => return None,
        },
        "numeric-bool" => match orig {
            "true" => "1".into(),
            "false" => "0".into(),
            _ => return None,
        },
        _ => return None,
    };
    if v == orig {
        None
    } else {
        Some(v)
    }
}

struct Case {
    kind: String,
    create: (usize, bool),
    reopen: (usize, bool),
    populated: bool,
    tamper: Option<(String, Option<String>)>,
    expect_start: bool,
}

fn all_cases() -> Vec<Case> {
    let mut v = Vec::new();
    for a in 0..NETWORKS.len() {
        for ta in [true, false] {
            for b in 0..NETWORKS.len() {
                for tb in [true, false] {
                    let same = a == b && ta == tb;
                    v.push(Case { kind: "pair".into(), create: (a, ta), reopen: (b, tb), populated: (a * 3 + b + ta as usize) % 4 == 0 || same, tamper: None, expect_start: same });
                }
            }
        }
    }
    let keys = ["DB_VERSION", "PROTOCOL_VERSION", "BITCOIN_RPC_NETWORK", "EVM_RECORD_TRACES"];
    for (i, k) in keys.iter().enumerate() {
        for populated in [false, true] {
            v.push(Case { kind: format!("tamper-delete:{}", k), create: (i % 7, true), reopen: (i % 7, true), populated, tamper: Some((k.to_string(), None)), expect_start: false });
            let altered = match *k {
                "DB_VERSION" => "6",
                "PROTOCOL_VERSION" => "1",
                "BITCOIN_RPC_NETWORK" => "Signet",
                _ => "TRUE",
            };
            v.push(Case { kind: format!("tamper-alter:{}", k), create: (2, true), reopen: (2, true), populated, tamper: Some((k.to_string(), Some(altered.to_string()))), expect_start: false });
            v.push(Case { kind: format!("tamper-alter-higher:{}", k), create: (5, false), reopen: (5, false), populated, tamper: Some((k.to_string(), Some(match *k { "DB_VERSION" => "8", "PROTOCOL_VERSION" => "3", "BITCOIN_RPC_NETWORK" => "regtest ", _ => "" }.to_string()))), expect_start: false });
        }
        v.push(Case { kind: format!("control-rewrite-same:{}", k), create: (2, true), reopen: (2, true), populated: true, tamper: Some((k.to_string(), Some("<same>".into()))), expect_start: true });
    }
    // near misses of the recorded value, derived from the value actually recorded
    for k in keys.iter() {
        for nm in NEAR {
            v.push(Case { kind: format!("tamper-near:{}:{}", k, nm), create: (3, false), reopen: (3, false), populated: false, tamper: Some((k.to_string(), Some(format!("<near:{}>", nm)))), expect_start: false });
        }
    }
    for kind in ["foreign-stray-file", "foreign-stray-dir", "foreign-other-table-only", "foreign-config-table-removed", "fresh-empty-dir", "fresh-missing-dir", "path-is-a-file"] {
        v.push(Case { kind: kind.into(), create: (2, true), reopen: (2, true), populated: false, tamper: None, expect_start: kind.starts_with("fresh") });
    }
    v
}

fn run_case(ctx: &WorkerCtx, rep: &mut WorkerReport, c: &Case, btc: &str) {
    let base = rpc::fresh_dir("C20");
    let dir: PathBuf = base.join("db");
    let (an, at) = (NETWORKS[c.create.0], c.create.1);
    let (bn, bt) = (NETWORKS[c.reopen.0], c.reopen.1);
    let label = format!("{} create=({},{}) reopen=({},{})", c.kind, an, at, bn, bt);
    let mut before: Option<(Universe, obs::Obs)> = None;
    let needs_creation = c.kind == "pair" || c.kind.starts_with("tamper") || c.kind.starts_with("control") || c.kind == "foreign-config-table-removed" || c.kind == "foreign-other-table-only";
    if needs_creation {
        let (o, s) = try_start(an, at, &dir, btc);
        let Some(s) = s else {
            if matches!(o, Outcome::OtherError(_)) {
                rep.inconclusive(format!("{}: creating the database failed: {:?}", label, o));
            } else {
                violation(rep, "C20", ctx.seed, "fresh-dir-refused", format!("{}: start() on a fresh directory was refused: {:?}", label, o), json!({}));
            }
            rpc::remove_dir(&base);
            return;
        };
        if c.populated || c.kind == "foreign-other-table-only" {
            let u = populate(&s, &dir);
            let o = observe_http(&s, &dir, &u);
            before = Some((u, o));
        }
        stop(s);
    }
    // manipulation
    match c.kind.as_str() {
        "foreign-stray-file" => {
            std::fs::create_dir_all(&dir).unwrap();
            std::fs::write(dir.join("notes.txt"), b"hello").unwrap();
        }
        "foreign-stray-dir" => {
            std::fs::create_dir_all(dir.join("lost+found")).unwrap();
        }
        "foreign-other-table-only" => {
            // keep only the account tables of the created database
            for e in std::fs::read_dir(&dir).unwrap().flatten() {
                let n = e.file_name().to_string_lossy().to_string();
                if n != "account" && n != "account_cache" {
                    let _ = std::fs::remove_dir_all(e.path());
                }
            }
        }
        "foreign-config-table-removed" => {
            let _ = std::fs::remove_dir_all(dir.join("config"));
        }
        "fresh-empty-dir" => {
            std::fs::create_dir_all(&dir).unwrap();
        }
        "fresh-missing-dir" => {}
        "path-is-a-file" => {
            std::fs::write(&dir, b"i am a file").unwrap();
        }
        _ => {}
    }
    if let Some((k, v)) = &c.tamper {
        let newv = match v.as_deref() {
            Some("<same>") => read_config(&dir, k),
            Some(n) if n.starts_with("<near:") => {
                let name = &n[6..n.len() - 1];
                match read_config(&dir, k).and_then(|orig| near_variant(&orig, name)) {
                    Some(x) => Some(x),
                    None => {
                        // variant not applicable to this record (e.g. +1 of a string)
                        rpc::remove_dir(&base);
                        return;
                    }
                }
            }
            other => other.map(|s| s.to_string()),
        };
        if let Err(e) = edit_config(&dir, k, newv.as_deref()) {
            rep.inconclusive(format!("{}: could not edit the config table: {}", label, e));
            rpc::remove_dir(&base);
            return;
        }
    }
    // reopen
    let (o, s) = try_start(bn, bt, &dir, btc);
    rep.evaluations += 1;
    rep.count(&format!("cases:{}", c.kind.split(':').next().unwrap_or("")), 1);
    if !c.expect_start {
        rep.nontrivial(format!("{}:{}:{}:{}:{}:{}", c.kind, an, at, bn, bt, c.populated));
    }
    match (&o, c.expect_start) {
        (Outcome::Started, false) => {
            violation(rep, "C20", ctx.seed, &format!("started-under-other-config:{}", c.kind.split(':').next().unwrap_or("")),
                format!("{}: start() succeeded although the directory was created under another configuration / lacks its records", label),
                json!({"create": [an, at], "reopen": [bn, bt], "kind": c.kind, "populated": c.populated}));
        }
        (Outcome::ConfigRefused(m), true) | (Outcome::OtherError(m), true) => {
            if matches!(o, Outcome::OtherError(_)) && (m.to_lowercase().contains("lock") || m.contains("Address already in use")) {
                rep.inconclusive(format!("{}: {}", label, m));
            } else {
                violation(rep, "C20", ctx.seed, "identical-config-refused", format!("{}: start() under the identical configuration failed: {}", label, m), json!({"kind": c.kind}));
            }
        }
        (Outcome::Started, true) => {
            if let (Some(s), Some((u, ob))) = (&s, &before) {
                let oa = observe_http(s, &dir, u);
                let d = ob.diff(&oa);
                if !d.is_empty() {
                    violation(rep, "C20", ctx.seed, &format!("reopened-state-differs:{}", obs_diff_sig(&d)), format!("{}: after reopening under the identical configuration {} queries answer differently", label, d.len()), json!({"differences(before vs after)": obs::diff_summary(&d, 8)}));
                }
                rep.count("reopened_obs_entries_compared", oa.len() as u64);
            }
        }
        _ => {}
    }
    if rep.samples.len() < 3 && !c.expect_start {
        rep.sample(json!({"case": label, "outcome": format!("{:?}", o)}));
    }
    if let Some(s) = s {
        stop(s);
    }
    rpc::remove_dir(&base);
}

const KEYS: [&str; 4] = ["DB_VERSION", "PROTOCOL_VERSION", "BITCOIN_RPC_NETWORK", "EVM_RECORD_TRACES"];

fn config_rows(dir: &Path) -> Vec<Option<String>> {
    KEYS.iter().map(|k| read_config(dir, k)).collect()
}

/// A directory's whole life: created and populated under A, then reopened several times under A
/// or under another configuration. A refused start must leave the records as they were (so that a
/// later identical start still succeeds), an accepted one must serve the state of the last stop.
fn run_chain(ctx: &WorkerCtx, rep: &mut WorkerReport, cseed: u64, btc: &str) {
    let mut rng = crate::rng::Rng::new(cseed);
    let base = rpc::fresh_dir("C20");
    let dir: PathBuf = base.join("db");
    let a = (rng.below(NETWORKS.len() as u64) as usize, rng.chance(1, 2));
    let (o, s) = try_start(NETWORKS[a.0], a.1, &dir, btc);
    let Some(s) = s else {
        rep.inconclusive(format!("chain {:#x}: creating the database failed: {:?}", cseed, o));
        rpc::remove_dir(&base);
        return;
    };
    let mut u = populate(&s, &dir);
    let mut before = observe_http(&s, &dir, &u);
    stop(s);
    let steps = 3 + rng.below(4);
    let mut trail: Vec<String> = vec![format!("create({},{})", NETWORKS[a.0], a.1)];
    for step in 0..steps {
        let same = rng.chance(1, 2);
        let b = if same {
            a
        } else {
            loop {
                // a change of one coordinate is the most likely slip
                let c = match rng.below(3) {
                    0 => (a.0, !a.1),
                    1 => (rng.below(NETWORKS.len() as u64) as usize, a.1),
                    _ => (rng.below(NETWORKS.len() as u64) as usize, rng.chance(1, 2)),
                };
                if c != a {
                    break c;
                }
            }
        };
        trail.push(format!("reopen({},{})", NETWORKS[b.0], b.1));
        let rows_before = config_rows(&dir);
        let (o, s) = try_start(NETWORKS[b.0], b.1, &dir, btc);
        rep.evaluations += 1;
        rep.count("cases:chain-step", 1);
        let label = format!("chain {:#x} step {}: {}", cseed, step, trail.join(" -> "));
        match (&o, same) {
            (Outcome::Started, false) => {
                violation(rep, "C20", ctx.seed, "started-under-other-config:chain", format!("{}: start() succeeded under a configuration other than the creating one", label), json!({"trail": trail}));
            }
            (Outcome::ConfigRefused(_), false) => {
                rep.nontrivial(format!("chain:{}:{}:{}:{}:after-{}", NETWORKS[a.0], a.1, NETWORKS[b.0], b.1, step));
                let rows_after = config_rows(&dir);
                if rows_after != rows_before {
                    violation(rep, "C20", ctx.seed, "refused-start-changed-records", format!("{}: the refused start changed the recorded configuration {:?} -> {:?}", label, rows_before, rows_after), json!({"trail": trail}));
                }
            }
            (Outcome::OtherError(m), false) => {
                rep.inconclusive(format!("{}: {}", label, m));
            }
            (Outcome::ConfigRefused(m), true) | (Outcome::OtherError(m), true) => {
                if matches!(o, Outcome::OtherError(_)) && (m.to_lowercase().contains("lock") || m.contains("Address already in use")) {
                    rep.inconclusive(format!("{}: {}", label, m));
                } else {
                    violation(rep, "C20", ctx.seed, "identical-config-refused", format!("{}: start() under the identical configuration failed: {}", label, m), json!({"trail": trail}));
                }
            }
            (Outcome::Started, true) => {
                let sv = s.as_ref().unwrap();
                let oa = observe_http(sv, &dir, &u);
                let d = before.diff(&oa);
                if !d.is_empty() {
                    violation(rep, "C20", ctx.seed, &format!("reopened-state-differs:{}", obs_diff_sig(&d)), format!("{}: after reopening under the identical configuration {} queries answer differently", label, d.len()), json!({"trail": trail, "differences(before vs after)": obs::diff_summary(&d, 8)}));
                }
                rep.count("reopened_obs_entries_compared", oa.len() as u64);
                if rng.chance(1, 2) {
                    // the directory keeps living: one more committed block
                    let mut i = Inst::over_http(&dir, &sv.addr, vec![]);
                    i.call("brc20_mine", json!({"block_count": 1, "timestamp": 10 + step}));
                    i.call("brc20_commitToDatabase", json!([]));
                    u.max_height += 1;
                    before = observe_http(sv, &dir, &u);
                    trail.push("mine+commit".into());
                }
            }
        }
        if let Some(s) = s {
            stop(s);
        }
        if rep.violations.len() > 3 {
            break;
        }
    }
    rpc::remove_dir(&base);
}

pub fn worker(ctx: &WorkerCtx) -> WorkerReport {
    rpc::install_panic_hook();
    let btc = crate::fakebtc::start("regtest");
    let mut rep = WorkerReport::default();
    let cases = all_cases();
    if ctx.shard == 0 {
        rep.count("cases_in_space", cases.len() as u64);
    }
    for (i, c) in cases.iter().enumerate() {
        if i as u64 % ctx.nshards == ctx.shard {
            run_case(ctx, &mut rep, c, &btc);
        }
    }
    let chains = if ctx.thorough() { 12 } else { 1 };
    for c in 0..chains {
        run_chain(ctx, &mut rep, ctx.seed.wrapping_mul(0x9e3779b97f4a7c15) ^ (ctx.shard << 20) ^ c, &btc);
    }
    rep
}
