//! Property registry: plan (sharding), spec (evidence metadata), worker entry, replay entry.

use crate::report::{Spec, WorkerReport};
use crate::WorkerCtx;

pub mod common;
pub mod c14;
pub mod c13;
pub mod c15;
pub mod c06;
pub mod c18;
pub mod c19;
pub mod c08;
pub mod c07;
pub mod c05;
pub mod c10;
pub mod c16;
pub mod c17;
pub mod c20;
pub mod c12;
pub mod c09;
pub mod c04;
pub mod c11;
pub mod smoke;
pub mod exp;
pub mod c01;
pub mod c02;
pub mod c03;

pub struct Plan {
    pub shards: u64,
    pub max_parallel: u64,
    pub worker_timeout_s: u64,
    pub extra: Vec<String>,
}

impl Plan {
    pub fn new(shards: u64, timeout_s: u64) -> Plan {
        Plan { shards, max_parallel: 16, worker_timeout_s: timeout_s, extra: vec![] }
    }
}

pub fn plan(id: &str, tier: &str) -> Option<Plan> {
    let _t = tier == "thorough";
    match id {
        "C01" => Some(Plan::new(if _t { 64 } else { 12 }, 1200)),
        "C02" => Some(Plan::new(if _t { 160 } else { 14 }, 1200)),
        "C03" => Some(Plan::new(if _t { 64 } else { 12 }, 1500)),
        "C14" => Some(Plan::new(if _t { 64 } else { 6 }, 900)),
        "C13" => Some(Plan::new(if _t { 48 } else { 12 }, 1500)),
        "C15" => Some(Plan::new(if _t { 96 } else { 12 }, 1500)),
        "C06" => Some(Plan::new(if _t { 320 } else { 12 }, 1500)),
        "C18" => Some(Plan::new(if _t { 320 } else { 12 }, 1500)),
        "C19" => Some(Plan::new(if _t { 240 } else { 12 }, 1500)),
        "C08" => Some(Plan::new(if _t { 120 } else { 12 }, 1500)),
        "C07" => Some(Plan::new(if _t { 160 } else { 12 }, 1500)),
        "C05" => Some(Plan::new(if _t { 120 } else { 12 }, 1500)),
        "C10" => Some(Plan::new(if _t { 160 } else { 12 }, 1500)),
        "C16" => Some(Plan::new(if _t { 288 } else { 12 }, 1800)),
        "C17" => Some(Plan::new(if _t { 320 } else { 12 }, 1500)),
        "C20" => Some(Plan::new(if _t { 32 } else { 16 }, 1500)),
        "C12" => Some(Plan::new(c12::shards(_t), 1500)),
        "C09" => Some(Plan::new(if _t { 64 } else { 16 }, 1500)),
        "C04" => Some(Plan::new(if _t { 28 } else { 14 }, 2400)),
        "C11" => Some(Plan::new(if _t { 16 } else { 4 }, 900)),
        _ => None,
    }
}

pub fn spec(id: &str) -> Option<Spec> {
    match id {
        "C01" => Some(c01::spec()),
        "C02" => Some(c02::spec()),
        "C03" => Some(c03::spec()),
        "C14" => Some(c14::spec()),
        "C13" => Some(c13::spec()),
        "C15" => Some(c15::spec()),
        "C06" => Some(c06::spec()),
        "C18" => Some(c18::spec()),
        "C19" => Some(c19::spec()),
        "C08" => Some(c08::spec()),
        "C07" => Some(c07::spec()),
        "C05" => Some(c05::spec()),
        "C10" => Some(c10::spec()),
        "C16" => Some(c16::spec()),
        "C17" => Some(c17::spec()),
        "C20" => Some(c20::spec()),
        "C12" => Some(c12::spec()),
        "C09" => Some(c09::spec()),
        "C04" => Some(c04::spec()),
        "C11" => Some(c11::spec()),
        _ => None,
    }
}

pub fn worker(ctx: &WorkerCtx) -> WorkerReport {
    match ctx.prop.as_str() {
        "C01" => c01::worker(ctx),
        "C02" => c02::worker(ctx),
        "C03" => c03::worker(ctx),
        "C14" => c14::worker(ctx),
        "C13" => c13::worker(ctx),
        "C15" => c15::worker(ctx),
        "C06" => c06::worker(ctx),
        "C18" => c18::worker(ctx),
        "C19" => c19::worker(ctx),
        "C08" => c08::worker(ctx),
        "C07" => c07::worker(ctx),
        "C05" => c05::worker(ctx),
        "C10" => c10::worker(ctx),
        "C16" => c16::worker(ctx),
        "C17" => c17::worker(ctx),
        "C20" => c20::worker(ctx),
        "C12" => c12::worker(ctx),
        "C09" => c09::worker(ctx),
        "C04" => c04::worker(ctx),
        "C11" => c11::worker(ctx),
        other => {
            let mut r = WorkerReport::default();
            r.inconclusive(format!("no worker for {}", other));
            r
        }
    }
}

/// Re-executes the run that produced a witness file: the file records the property and the run
/// seed, and every run is a deterministic function of (property, tier, seed).
pub fn replay(id: &str, file: &str) -> i32 {
    let Ok(text) = std::fs::read_to_string(file) else {
        eprintln!("cannot read {}", file);
        return 2;
    };
    let v: serde_json::Value = serde_json::from_str(&text).unwrap_or(serde_json::Value::Null);
    println!("replaying {}: {}", file, v["what"].as_str().unwrap_or(""));
    println!("recorded signature: {}", v["signature"].as_str().unwrap_or(""));
    if let Some(seed) = v["seed"].as_u64() {
        std::env::set_var("VERIF_SEED", seed.to_string());
    }
    let tier = std::env::var("VERIF_TIER").unwrap_or_else(|_| "quick".into());
    crate::run_parent(id, &tier)
}
