//! C19 — contracts see exactly the block context the indexer supplied.

use std::collections::BTreeMap;

use serde_json::{json, Value};

use super::common::*;
use crate::asm;
use crate::hist::{self, Ctx, Driver, Enc, Op, Signer, Target};
use crate::report::{Spec, WorkerReport};
use crate::rng::Rng;
use crate::rpc::{self, Resp};
use crate::WorkerCtx;

pub fn spec() -> Spec {
    Spec {
        prop: "C19",
        level: "exploration",
        rule: "A Probe contract stores NUMBER, TIMESTAMP, PREVRANDAO, CHAINID, BASEFEE, GASPRICE, COINBASE, ORIGIN, CALLER, BLOCKHASH(n-k), BLOCKHASH(abs), and the current-txid helper's success/returndatasize/word into a fresh slot group per call; the expectation is computed from the history (supplied timestamp/hash/txid, network, sender) and compared through eth_getStorageAt. Histories use arbitrary timestamps, explicit and zero hashes, distinct txids, inscription / signed / parked-then-drained transactions, reorgs, >256-block depth; networks regtest (Prague), signet and bitcoin at low heights (Cancun); one worker in five runs under a configured chain id that is not its network's default. Deposits/withdrawals are checked to run as the indexer address. Non-trivial = probe in a drained transaction, after a reorg, or reading a non-zero BLOCKHASH; distinct by (op kind, network, situation).",
        assumptions: vec!["the zero transaction id of deposits/withdrawals is unobservable by construction (the controller does not read it)".into()],
        exhaustive: false,
        min_nontrivial: 2,
    }
}

fn gen_hash(number: u64) -> String {
    format!("0x{:048x}{:016x}", 0, number + 1)
}

struct Expect {
    tool: String,
    base: u64,
    kind: String,
    situation: String,
    number: u64,
    ts: u64,
    hash: String,
    sender: [u8; 20],
    txid: String,
    k: u64,
    abs: u64,
}

fn word_hex(v: &str) -> String {
    v.trim_start_matches("0x").to_lowercase()
}

fn check_expects(ctx: &WorkerCtx, rep: &mut WorkerReport, s: &mut ScFull, case_seed: u64) -> bool {
    let expects = std::mem::take(&mut s.sc.expects);
    for e in &expects {
        let read = |d: &mut Driver, i: u64| -> String {
            match d.inst.call("eth_getStorageAt", json!([e.tool, format!("0x{:x}", e.base + i)])) {
                Resp::Ok(Value::String(x)) => word_hex(&x),
                other => other.short(),
            }
        };
        let w64 = |x: u64| format!("{:064x}", x);
        let hash_of = |hashes: &BTreeMap<u64, String>, n: u64, cur: u64| -> String {
            if n < cur && cur - n <= 256 {
                hashes.get(&n).map(|h| word_hex(h)).unwrap_or_else(|| w64(0))
            } else {
                w64(0)
            }
        };
        let eff_hash = word_hex(&if e.hash == hist::ZERO_HASH { gen_hash(e.number) } else { e.hash.clone() });
        let mut want: Vec<(&str, u64, String)> = vec![
            ("NUMBER", 0, w64(e.number)),
            ("TIMESTAMP", 1, w64(e.ts)),
            ("PREVRANDAO", 2, eff_hash.clone()),
            ("CHAINID", 3, w64(s.sc.chain_id)),
            ("BASEFEE", 4, w64(0)),
            ("GASPRICE", 5, w64(0)),
            ("COINBASE", 6, w64(0)),
            ("ORIGIN", 7, format!("{:0>64}", hex::encode(e.sender))),
            ("CALLER", 8, format!("{:0>64}", hex::encode(e.sender))),
            ("BLOCKHASH(number-k)", 9, if e.k == 0 || e.k > e.number { w64(0) } else { hash_of(&s.sc.hashes_at(e.number), e.number - e.k, e.number) }),
            ("txid-helper success", 10, w64(1)),
            ("txid-helper returndatasize", 11, w64(if prague_at(s.sc.net, e.number) { 32 } else { 0 })),
            ("txid-helper word", 12, if prague_at(s.sc.net, e.number) { word_hex(&e.txid) } else { w64(0) }),
            ("BLOCKHASH(abs)", 13, hash_of(&s.sc.hashes_at(e.number), e.abs, e.number)),
            ("marker", 14, w64(1)),
        ];
        // the probe may have been orphaned by a later reorg: then nothing is checked
        if s.sc.d.height < e.number as i64 || s.sc.hashes.get(&e.number).map(|h| word_hex(h)) != Some(eff_hash.clone()) {
            continue;
        }
        rep.evaluations += 1;
        for (name, off, exp) in want.drain(..) {
            let got = read(&mut s.sc.d, off);
            if got != exp {
                violation(rep, "C19", ctx.seed, &format!("context:{}:{}", name, e.kind),
                    format!("a {} transaction in block {} observed {} = 0x{} but the indexer supplied 0x{}", e.kind, e.number, name, got, exp),
                    json!({"case_seed": case_seed, "network": s.sc.net, "kind": e.kind, "situation": e.situation, "block": e.number, "supplied_timestamp": e.ts, "supplied_hash": e.hash, "supplied_txid": e.txid, "k": e.k, "abs": e.abs, "history": log_json(&s.sc.d.log, 120)}));
                return false;
            }
        }
        let reads_nonzero_bh = (e.k >= 1 && e.k <= e.number && e.k <= 256) || (e.abs < e.number && e.number - e.abs <= 256);
        if e.kind == "drained" || e.situation == "after-reorg" || reads_nonzero_bh {
            rep.nontrivial(format!("{}:{}:{}:{}", e.kind, s.sc.net, e.situation, if reads_nonzero_bh { "blockhash" } else { "-" }));
        }
        if s.sc.chain_base > 0 {
            let act = prague_height(s.sc.net);
            let rel = if e.number == act { "first-prague-block" } else if e.number + 1 == act { "last-cancun-block" } else if e.number < act { "before" } else { "after" };
            rep.nontrivial(format!("rule-change:{}:{}:{}", s.sc.net, rel, e.kind));
            rep.set_add("rule_change_probes", format!("{}:{}:{}", s.sc.net, rel, e.kind));
        }
        rep.count(&format!("probes:{}", e.kind), 1);
    }
    for (from, th) in std::mem::take(&mut s.bridge) {
        rep.evaluations += 1;
        let tx = s.sc.d.inst.call("eth_getTransactionByHash", json!([th]));
        let tx_from = tx.ok().and_then(|t| t["from"].as_str().map(|x| x.to_string())).unwrap_or_default();
        if from.to_lowercase() != hist::INDEXER || (!tx_from.is_empty() && tx_from.to_lowercase() != hist::INDEXER) {
            violation(rep, "C19", ctx.seed, "bridge-sender", format!("a deposit/withdrawal ran as {} / {} instead of the indexer address", from, tx_from), json!({"case_seed": case_seed}));
            return false;
        }
        rep.count("bridge_ops_checked", 1);
    }
    true
}

// The scenario state is split in two structs only to keep the borrow checker simple.
struct ScFull<'a> {
    sc: Sc2<'a>,
    bridge: Vec<(String, String)>,
}

struct Sc2<'a> {
    d: Driver,
    rng: Rng,
    net: &'a str,
    chain_id: u64,
    prague: bool,
    /// height the chain was initialised at (0, or just below the Prague height)
    chain_base: u64,
    tool: String,
    hashes: BTreeMap<u64, String>,
    /// hashes as they were when block `n` was being built are the same map restricted to < n,
    /// except across reorgs; we snapshot per block.
    snapshots: BTreeMap<u64, BTreeMap<u64, String>>,
    expects: Vec<Expect>,
    uniq: u64,
    base: u64,
    pk: String,
    signer: Signer,
    after_reorg: bool,
    parked: Option<(u64, String, u64, u64, u64)>,
    parked_at: u64,
}

impl<'a> Sc2<'a> {
    fn hashes_at(&self, n: u64) -> BTreeMap<u64, String> {
        self.snapshots.get(&n).cloned().unwrap_or_else(|| self.hashes.clone())
    }
}

pub fn worker(ctx: &WorkerCtx) -> WorkerReport {
    let (net, traces) = net_for_shard(ctx.shard);
    let mut rep = WorkerReport::default();
    // one worker in five is configured with a chain id that is not the default of its network name
    // (a private id, or the other network's id): CHAINID, eth_chainId and the signed transactions'
    // chain id all follow the configured value
    if ctx.shard % 5 == 4 {
        let id = match (ctx.shard / 5) % 3 {
            0 => 0x539,
            1 => if net == "bitcoin" { rpc::CHAIN_ID_TEST } else { rpc::CHAIN_ID_MAIN },
            _ => 0x7fff_ffff_ffff_ffff,
        };
        rpc::CHAIN_ID_OVERRIDE.store(id, std::sync::atomic::Ordering::Relaxed);
        rep.set_add("coverage", format!("configured-chain-id-not-the-network-default:{}:{:#x}", net, id));
    }
    crate::setup_env(net, traces);
    let mut rng = ctx.rng();
    let cases = if ctx.thorough() { 8 } else { 1 };
    for c in 0..cases {
        let cs = rng.next();
        let boundary = c == 0 && ((net == "signet" && ctx.shard % 12 == 1) || (net == "bitcoin" && ctx.thorough() && ctx.shard % 96 == 2));
        run_case(ctx, &mut rep, net, cs, ctx.shard % 4 == 3 && c == 0 && !boundary, boundary);
    }
    rep
}

fn run_case(ctx: &WorkerCtx, rep: &mut WorkerReport, net: &str, case_seed: u64, deep: bool, boundary: bool) {
    let mut rng = Rng::new(case_seed);
    let mut d = new_driver("C19");
    // boundary mode: the chain is initialised a few blocks below the Prague height of the network
    let act = prague_height(net);
    let chain_base = if boundary && act > 20 { act - 3 - rng.below(4) } else { 0 };
    if chain_base > 0 && !mine_to(&mut d, chain_base) {
        rep.inconclusive("mining up to the rule-change height failed");
        drop_driver(d);
        return;
    }
    d.exec(Op::Init { hash: hist::ZERO_HASH.into(), ts: 1, height: chain_base });
    let pk = "5120eeeeeeeeeeeeeeeeeeeeeeeeeeeeeeeeeeeeeeeeeeeeeeeeeeeeeeeeeeeeeeee".to_string();
    let h1 = crate::hist::bh((0xc19u64) as u64);
    let r = d.exec(Op::Deploy { pk: pk.clone(), data: hist::hx(&asm::tool_init()), enc: Enc::Hex, ctx: Ctx { ts: 2, hash: h1.clone(), idx: 0 }, iid: "c19-tool".into(), len: 100_000, txid: hist::ZERO_HASH.into() });
    let Some(tool) = hist::created_address(&r) else {
        rep.inconclusive("tool deployment failed");
        drop_driver(d);
        return;
    };
    d.exec(Op::Finalise { ts: 2, hash: h1.clone(), count: 1 });
    let mut hashes = BTreeMap::new();
    // the mined blocks carry server-generated hashes; the last 300 are within BLOCKHASH reach
    for n in chain_base.saturating_sub(300)..=chain_base {
        hashes.insert(n, gen_hash(n));
    }
    hashes.insert(chain_base + 1, h1);
    let prague = prague_at(net, chain_base + 1);
    let mut s = ScFull {
        sc: Sc2 { d, rng: rng.fork(1), net, chain_id: rpc::chain_id_for(net), prague, chain_base, tool, hashes, snapshots: BTreeMap::new(), expects: vec![], uniq: 0, base: 0x1000, pk, signer: Signer::new(3), after_reorg: false, parked: None, parked_at: 0 },
        bridge: vec![],
    };
    if deep {
        // > 256 blocks of depth for the BLOCKHASH edge
        let start = s.sc.d.next_height();
        s.sc.d.exec(Op::Mine { n: 262, ts: 7 });
        for i in 0..262 {
            s.sc.hashes.insert(start + i, gen_hash(start + i));
        }
    }
    let blocks = if ctx.thorough() { 14 } else { 9 };
    let mut did_reorg = false;
    for b in 0..blocks {
        block2(&mut s);
        if !check_expects(ctx, rep, &mut s, case_seed) {
            drop_driver(s.sc.d);
            return;
        }
        if rng.chance(1, 4) {
            s.sc.d.exec(Op::Commit);
        }
        if !did_reorg && b >= blocks / 2 && s.sc.d.height > 4 {
            let n = (s.sc.d.height - rng.range(1, 3) as i64) as u64;
            if s.sc.d.exec(Op::Reorg { n }).is_ok() {
                s.sc.hashes.retain(|k, _| *k <= n);
                s.sc.snapshots.retain(|k, _| *k <= n);
                s.sc.after_reorg = true;
                s.sc.parked = None; // whatever was parked above n is gone; below n stays but we stop tracking
                did_reorg = true;
            }
        }
    }
    if rep.samples.len() < 2 {
        rep.sample(json!({"case_seed": case_seed, "network": net, "prague_at_start": prague, "initialised_at": chain_base, "blocks": s.sc.d.height + 1, "deep_chain": deep, "reorged": did_reorg, "last_calls": log_json(&s.sc.d.log, 3)}));
    }
    drop_driver(s.sc.d);
}

fn block2(s: &mut ScFull) {
    let sc = &mut s.sc;
    let number = sc.d.next_height();
    sc.snapshots.insert(number, sc.hashes.clone());
    let ts = match sc.rng.below(6) {
        0 => 0,
        1 => u64::MAX,
        2 => 1,
        3 => (1u64 << 32) + sc.rng.below(1000),
        _ => sc.rng.range(1_600_000_000, 1_800_000_000),
    };
    let hash = if sc.rng.chance(1, 4) {
        hist::ZERO_HASH.to_string()
    } else {
        sc.uniq += 1;
        format!("0x{:016x}{:048x}", 0xc19c19c19c19c19cu64, sc.uniq)
    };
    let n = sc.rng.range(1, 4);
    for _ in 0..n {
        let ctx = Ctx { ts, hash: hash.clone(), idx: sc.d.ntx };
        sc.uniq += 1;
        let txid = format!("0x{:016x}{:048x}", 0x1d1d1d1d1d1d1d1du64, sc.uniq);
        let iid = format!("c19-{}i0", sc.uniq);
        let mut probe = |sc: &mut Sc2| -> (Vec<u8>, u64, u64, u64) {
            sc.base += 0x20;
            let k = *sc.rng.pick(&[1u64, 1, 2, 3, 255, 256, 257, 0]);
            let abs = if sc.rng.chance(1, 2) { number.saturating_sub(sc.rng.below(4)) } else { sc.rng.below(number + 2) };
            (asm::tool_call(asm::OP_PROBE, &[asm::word_u64(sc.base), asm::word_u64(k), asm::word_u64(abs)], &[]), sc.base, k, abs)
        };
        let situation = if sc.after_reorg { "after-reorg".to_string() } else { "plain".to_string() };
        // on a chain that crosses a rule change: a transaction is parked in the last block under the old
        // rules and drained in the first block under the new ones
        let act = prague_height(sc.net);
        let forced = if sc.chain_base > 0 && number + 1 == act && sc.parked.is_none() {
            Some(3)
        } else if sc.chain_base > 0 && number == act && sc.parked.is_some() {
            Some(2)
        } else {
            None
        };
        match forced.unwrap_or_else(|| sc.rng.below(5)) {
            0 | 1 => {
                let (data, base, k, abs) = probe(sc);
                let r = sc.d.exec(Op::Call { pk: sc.pk.clone(), target: Target::Addr(sc.tool.clone()), data: Some(hist::hx(&data)), enc: Enc::Hex, ctx, iid, len: 100_000, txid: txid.clone() });
                if r.is_ok() {
                    sc.expects.push(Expect { tool: sc.tool.clone(), base, kind: "inscription".into(), situation, number, ts, hash: hash.clone(), sender: hist::pk_address(&sc.pk), txid, k, abs });
                }
            }
            2 => {
                let cur = hist::account_nonce(&mut sc.d.inst, &sc.signer.addr);
                let (data, base, k, abs) = probe(sc);
                let raw = sc.signer.sign(Some(sc.chain_id), cur, Some(hist::parse_addr(&sc.tool)), &data);
                let r = sc.d.exec(Op::Transact { raw: format!("0x{}", raw), enc: Enc::Hex, ctx, iid, len: 100_000, txid: txid.clone() });
                let rc = hist::receipts_in(&r);
                if !rc.is_empty() {
                    sc.expects.push(Expect { tool: sc.tool.clone(), base, kind: "signed".into(), situation, number, ts, hash: hash.clone(), sender: sc.signer.addr, txid, k, abs });
                }
                if rc.len() == 2 {
                    if let Some((_, ptxid, pbase, pk_, pabs)) = sc.parked.take() {
                        sc.expects.push(Expect { tool: sc.tool.clone(), base: pbase, kind: "drained".into(), situation: "parked-then-drained".into(), number, ts, hash: hash.clone(), sender: sc.signer.addr, txid: ptxid, k: pk_, abs: pabs });
                    }
                } else if !rc.is_empty() {
                    // predecessor executed but the parked successor did not follow: it expired
                    sc.parked = None;
                }
            }
            3 => {
                if sc.parked.is_none() {
                    let cur = hist::account_nonce(&mut sc.d.inst, &sc.signer.addr);
                    let (data, base, k, abs) = probe(sc);
                    let raw = sc.signer.sign(Some(sc.chain_id), cur + 1, Some(hist::parse_addr(&sc.tool)), &data);
                    let r = sc.d.exec(Op::Transact { raw: format!("0x{}", raw), enc: Enc::Hex, ctx, iid, len: 100_000, txid: txid.clone() });
                    if r.is_ok() && hist::receipts_in(&r).is_empty() {
                        sc.parked = Some((cur + 1, txid, base, k, abs));
                        sc.parked_at = number;
                    }
                }
            }
            _ => {
                let op = if sc.rng.chance(2, 3) {
                    Op::Deposit { pk: sc.pk.clone(), ticker: "ctx".into(), amount: "0x10".into(), ctx, iid }
                } else {
                    Op::Withdraw { pk: sc.pk.clone(), ticker: "ctx".into(), amount: "0x1".into(), ctx, iid }
                };
                let r = sc.d.exec(op);
                for rc in hist::receipts_in(&r) {
                    s.bridge.push((rc["from"].as_str().unwrap_or("").to_string(), rc["transactionHash"].as_str().unwrap_or("").to_string()));
                }
            }
        }
    }
    let cnt = sc.d.ntx;
    // the first transaction fixed the block's timestamp/hash
    let (fts, fhash) = sc.d.open.clone().unwrap_or((ts, hash.clone()));
    let r = sc.d.exec(Op::Finalise { ts: fts, hash: fhash.clone(), count: cnt });
    if r.is_ok() {
        let eff = if fhash == hist::ZERO_HASH { gen_hash(number) } else { fhash };
        sc.hashes.insert(number, eff);
        if sc.parked.is_some() && sc.parked_at + 10 <= number {
            sc.parked = None;
        }
    }
}
