//! Smoke run: exercises the contract library against the real engine and prints what happens.

use serde_json::json;

use crate::asm;
use crate::hist::{self, Ctx, Driver, Enc, Op, Target};
use crate::obs;
use crate::rpc::Inst;

pub fn run() {
    crate::setup_env("regtest", true);
    let dir = crate::rpc::fresh_dir("smoke");
    let inst = Inst::open(&dir).expect("open");
    println!("methods: {}", inst.method_names().len());
    let mut d = Driver::new(inst);
    let r = d.exec(Op::Init { hash: hist::ZERO_HASH.into(), ts: 100, height: 0 });
    println!("init: {}", r.short());
    let pk = "5120aaaaaaaaaaaaaaaaaaaaaaaaaaaaaaaaaaaaaaaaaaaaaaaaaaaaaaaaaaaaaaaa".to_string();
    let hash = "0x00000000000000000000000000000000000000000000000000000000000000b1".to_string();
    let mut idx = 0;
    let mut tx = |d: &mut Driver, op: Op| {
        let r = d.exec(op);
        r
    };
    let ctx = |i: u64| Ctx { ts: 200, hash: hash.clone(), idx: i };
    let r = tx(&mut d, Op::Deploy { pk: pk.clone(), data: hist::hx(&asm::tool_init_with_ctor()), enc: Enc::Hex, ctx: ctx(idx), iid: "iid-tool".into(), len: 100000, txid: hist::ZERO_HASH.replace("00", "11") });
    idx += 1;
    println!("deploy tool: {}", r.short());
    let tool = hist::created_address(&r).expect("tool address");
    let r = tx(&mut d, Op::Deploy { pk: pk.clone(), data: hist::hx(&asm::batcher_init()), enc: Enc::B64, ctx: ctx(idx), iid: "iid-batcher".into(), len: 100000, txid: hist::ZERO_HASH.into() });
    idx += 1;
    let batcher = hist::created_address(&r).expect("batcher address");
    println!("tool={} batcher={}", tool, batcher);
    let t20 = hist::parse_addr(&tool);
    let calls: Vec<(&str, Vec<u8>)> = vec![
        ("sstore", asm::tool_call(asm::OP_SSTORE, &[asm::word_u64(1), asm::word_u64(0x1234)], &[])),
        ("sload", asm::tool_call(asm::OP_SLOAD, &[asm::word_u64(1)], &[])),
        ("log3", asm::tool_call(asm::OP_LOG, &[asm::word_u64(3), asm::word_u64(0xa1), asm::word_u64(0xa2), asm::word_u64(0xa3), asm::word_u64(0xa4), asm::word_u64(0xdada)], &[])),
        ("log0", asm::tool_call(asm::OP_LOG, &[asm::word_u64(0), asm::word_u64(0xa1), asm::word_u64(0xa2), asm::word_u64(0xa3), asm::word_u64(0xa4), asm::word_u64(0xdada)], &[])),
        ("log4", asm::tool_call(asm::OP_LOG, &[asm::word_u64(4), asm::word_u64(0xa1), asm::word_u64(0xa2), asm::word_u64(0xa3), asm::word_u64(0xa4), asm::word_u64(0xdada)], &[])),
        ("logs", asm::tool_call(asm::OP_LOGS, &[asm::word_u64(3), asm::word_u64(0xb1), asm::word_u64(0x100)], &[])),
        ("probe", asm::tool_call(asm::OP_PROBE, &[asm::word_u64(0x1000), asm::word_u64(1), asm::word_u64(0)], &[])),
        ("create", asm::tool_call(asm::OP_CREATE, &[], &asm::tool_init())),
        ("create2", asm::tool_call(asm::OP_CREATE2, &[asm::word_u64(5)], &asm::tool_init())),
        ("burn", asm::tool_call(asm::OP_BURN, &[asm::word_u64(100)], &[])),
        ("revert", asm::tool_call(asm::OP_REVERT, &[asm::word_u64(0xbad)], &[])),
        ("invalid", asm::tool_call(asm::OP_INVALID, &[], &[])),
        ("call", asm::tool_call(asm::OP_CALL, &[asm::word_addr(&t20)], &asm::tool_call(asm::OP_INC, &[asm::word_u64(2)], &[]))),
        ("static-fb", asm::tool_call(asm::OP_STATIC, &[asm::word_u64(0xfa)], &[])),
        ("inc", asm::tool_call(asm::OP_INC, &[asm::word_u64(2)], &[])),
        ("cond", asm::tool_call(asm::OP_COND, &[asm::word_u64(3), asm::word_u64(7)], &[])),
        ("cond-again", asm::tool_call(asm::OP_COND, &[asm::word_u64(3), asm::word_u64(7)], &[])),
        ("unknown-op", vec![0x77]),
        ("empty", vec![]),
    ];
    for (name, data) in calls {
        let r = tx(&mut d, Op::Call { pk: pk.clone(), target: Target::Addr(tool.clone()), data: Some(hist::hx(&data)), enc: Enc::Hex, ctx: ctx(idx), iid: format!("iid-{}", name), len: 100000, txid: crate::hist::bh((0x7000 + idx) as u64) });
        let rc = hist::receipts_in(&r);
        let st = rc.first().map(|x| format!("status={} gas={} logs={}", x["status"], x["gasUsed"], x["logs"].as_array().map(|a| a.len()).unwrap_or(0))).unwrap_or_else(|| r.short());
        let txh = rc.first().and_then(|x| x["transactionHash"].as_str()).unwrap_or("").to_string();
        let tr = d.inst.call("debug_traceTransaction", json!([txh]));
        let out = tr.ok().and_then(|t| t.get("output").cloned()).unwrap_or_default();
        println!("{:12} {} out={}", name, st, out);
        if r.is_ok() {
            idx += 1;
        }
    }
    // batcher: two incs, non-reverting
    let cd = asm::batch_call(false, &[(t20, asm::tool_call(asm::OP_INC, &[asm::word_u64(2)], &[])), (t20, asm::tool_call(asm::OP_REVERT, &[asm::word_u64(1)], &[])), (t20, asm::tool_call(asm::OP_INC, &[asm::word_u64(2)], &[]))]);
    let r = tx(&mut d, Op::Call { pk: pk.clone(), target: Target::Addr(batcher.clone()), data: Some(hist::hx(&cd)), enc: Enc::Hex, ctx: ctx(idx), iid: "iid-batch".into(), len: 100000, txid: hist::ZERO_HASH.into() });
    idx += 1;
    println!("batch: {}", r.short());
    // signed tx
    let s = hist::Signer::new(1);
    let raw = s.sign(Some(crate::rpc::chain_id_for("regtest")), 0, Some(t20), &asm::tool_call(asm::OP_INC, &[asm::word_u64(2)], &[]));
    let r = tx(&mut d, Op::Transact { raw: format!("0x{}", raw), enc: Enc::Hex, ctx: ctx(idx), iid: "iid-signed".into(), len: 100000, txid: hist::ZERO_HASH.into() });
    println!("transact: {}", r.short());
    idx += hist::receipts_in(&r).len() as u64;
    let r = tx(&mut d, Op::Deposit { pk: pk.clone(), ticker: "ORDI".into(), amount: "0x64".into(), ctx: ctx(idx), iid: "iid-dep".into() });
    idx += 1;
    println!("deposit: {}", r.short());
    let r = d.exec(Op::Finalise { ts: 200, hash: hash.clone(), count: idx });
    println!("finalise: {}", r.short());
    for s in [2u64, 0x1000, 0x1001, 0x1002, 0x1003, 0x1007, 0x1008, 0x1009, 0x100a, 0x100b, 0x100c, 0x100d] {
        println!("slot {:x} = {}", s, d.inst.call("eth_getStorageAt", json!([tool, format!("0x{:x}", s)])).short());
    }
    println!("balance: {}", d.inst.call("brc20_balance", json!({"pkscript": pk, "ticker": "ordi"})).short());
    let mut u = obs::Universe::new();
    u.absorb_log(&d.log);
    u.max_height = 1;
    let t = std::time::Instant::now();
    let o = obs::observe(&mut d.inst, &u, obs::ObsMode::Boundary);
    println!("obs: {} entries, universe {}, digest {}, {:?}", o.len(), u.size(), o.digest(), t.elapsed());
    println!("block1: {}", d.inst.call("eth_getBlockByNumber", json!(["0x1", false])).short());
    println!("panics: {:?}", crate::rpc::take_panics());
    crate::rpc::remove_dir(&crate::rpc::process_work_dir("smoke"));
}
