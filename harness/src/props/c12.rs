//! C12 — without credentials nobody can drive the indexer interface.

use std::collections::{BTreeMap, BTreeSet};
use std::path::Path;
use std::time::Duration;

use jsonrpsee::server::ServerHandle;
use serde_json::{json, Value};

use super::common::*;
use crate::asm;
use crate::hist::{self, Signer};
use crate::http;
use crate::obs::{self, ObsMode, Universe};
use crate::report::{canon_string, Spec, WorkerReport};
use crate::rpc::{self, Inst, Resp};
use crate::WorkerCtx;

pub fn spec() -> Spec {
    Spec {
        prop: "C12",
        level: "exploration",
        rule: "Real server via start() on loopback, raw HTTP so the Authorization header is arbitrary. Enumerated completely: every registered method (real method table) x {call, notification, batch element first/middle/last mixed with public calls, batch of only notifications; for indexer-only methods also: string id, batch of one, last of a 31-element batch, two indexer-only calls in one batch, notification between public calls, an element that is not a JSON-RPC request in front of the call, a batch of exactly the batch limit and of one less with the call at a varying position} x {no header, wrong user, wrong password, right user + empty password, lower-case scheme, bad base64, two wrong headers, doubled space, suffix-extended credentials, correct} x {auth on, off}. Deny-listed + not authorised => JSON-RPC error 401 for that element and no effect (state digest through authorised reads, incl. an executing read that would stall on an open block, equal before/after); everything else served (no 401). Completeness: each method is also invoked authorised with well-formed parameters on a scratch server and classified by effect (Obs, open block, pool); every method classified mutating must have been refused in the unauthorised sweep; afterwards a fixed authorised script must answer exactly as on a twin server that never saw the sweep. Registered methods the harness has no parameters for (aliases, new methods) are called without credentials with the parameters of every indexer-only method and must not change state. Credentials from the whole RFC 7617 alphabet (base64 with '+', '/', both paddings, UTF-8, colons, 300 characters, random printable passwords): the configured pair opens the indexer interface, a pair one character off, the header cut short and no header do not. Thorough adds 16 shards of 1 500 random batch compositions each (2..50 elements, 1-3 indexer-only calls at random positions among public calls, notifications and non-requests). Non-trivial = matrix cell whose expectation is 'refused' or 'state must be unchanged'.",
        assumptions: vec!["a request carrying two Authorization headers of which one is correct is not judged (HTTP leaves the choice to the server)".into()],
        exhaustive: false,
        min_nontrivial: 2,
    }
}

const USER: &str = "indexer";
const PASS: &str = "s3cret-Pass";
pub const PK: &str = "5120c3c3c3c3c3c3c3c3c3c3c3c3c3c3c3c3c3c3c3c3c3c3c3c3c3c3c3c3c3c3c3c3";

struct Server {
    handle: ServerHandle,
    addr: String,
}

fn start(auth: bool, dir: &Path, btc: &str, batch_limit: u32) -> Result<Server, String> {
    let mut last = String::new();
    for _ in 0..20 {
        match start_once(auth, dir, btc, batch_limit) {
            Ok(s) => return Ok(s),
            Err(e) if e.contains("in use") || e.to_lowercase().contains("lock") => {
                last = e;
                std::thread::sleep(Duration::from_millis(50));
            }
            Err(e) => return Err(e),
        }
    }
    Err(last)
}

fn start_once(auth: bool, dir: &Path, btc: &str, batch_limit: u32) -> Result<Server, String> {
    let port = http::free_port();
    let mut c = rpc::make_config("regtest", true, btc, dir.to_str().unwrap());
    c.brc20_prog_rpc_server_url = format!("127.0.0.1:{}", port);
    c.brc20_prog_rpc_server_enable_auth = auth;
    c.brc20_prog_rpc_server_user = Some(USER.into());
    c.brc20_prog_rpc_server_password = Some(PASS.into());
    c.batch_request_limit = batch_limit;
    let handle = rpc::rt().block_on(async { brc20_prog::start(c).await.map_err(|e| e.to_string()) })?;
    Ok(Server { handle, addr: format!("127.0.0.1:{}", port) })
}

fn stop(s: Server) {
    let _ = s.handle.stop();
    rpc::rt().block_on(async { s.handle.stopped().await });
}

fn header_variants() -> Vec<(&'static str, Vec<String>, bool)> {
    use base64::Engine;
    let b = |u: &str, p: &str| base64::prelude::BASE64_STANDARD.encode(format!("{}:{}", u, p));
    vec![
        ("none", vec![], false),
        ("wrong-user", vec![http::basic("admin", PASS)], false),
        ("wrong-password", vec![http::basic(USER, "s3cret-pass")], false),
        ("empty-password", vec![http::basic(USER, "")], false),
        ("lowercase-scheme", vec![format!("Authorization: basic {}", b(USER, PASS))], false),
        ("bad-base64", vec!["Authorization: Basic !!!not-base64!!!".to_string()], false),
        ("two-wrong-headers", vec![http::basic("a", "b"), http::basic(USER, "x")], false),
        ("double-space", vec![format!("Authorization: Basic  {}", b(USER, PASS))], false),
        ("suffix-extended", vec![format!("Authorization: Basic {}", b(USER, &format!("{}x", PASS)))], false),
        ("bearer", vec![format!("Authorization: Bearer {}", b(USER, PASS))], false),
        ("empty-value", vec!["Authorization:".to_string()], false),
        ("scheme-only", vec!["Authorization: Basic".to_string()], false),
        ("truncated", vec![format!("Authorization: Basic {}", &b(USER, PASS)[..b(USER, PASS).len() - 3])], false),
        ("trailing-garbage", vec![format!("Authorization: Basic {}AAAA", b(USER, PASS))], false),
        ("trailing-second-credential", vec![format!("Authorization: Basic {}, Basic asdfgh==", b(USER, PASS))], false),
        ("leading-space-in-value", vec![format!("Authorization: \t Basic {}", b(USER, PASS))], true),
        ("correct", vec![http::basic(USER, PASS)], true),
    ]
}

/// Well-formed parameters for every method (named form).
pub fn template(method: &str, st: &Tmpl) -> Option<Value> {
    let zero = hist::ZERO_HASH;
    Some(match method {
        "brc20_version" | "eth_blockNumber" | "eth_chainId" | "eth_maxPriorityFeePerGas" | "eth_blobBaseFee" | "net_version" | "web3_clientVersion" | "eth_accounts" | "eth_gasPrice" | "eth_syncing" | "txpool_content" | "brc20_commitToDatabase" | "brc20_clearCaches" => json!([]),
        "brc20_mine" => json!({"block_count": 1, "timestamp": 77}),
        "brc20_deploy" => json!({"from_pkscript": PK, "data": hist::hx(&asm::tool_init()), "timestamp": 78, "hash": st.fresh_hash, "tx_idx": 0, "inscription_id": format!("c12-d-{}", st.n), "inscription_byte_len": 100000, "op_return_tx_id": zero}),
        "brc20_call" => json!({"from_pkscript": PK, "contract_address": st.tool, "data": hist::hx(&asm::tool_call(asm::OP_INC, &[asm::word_u64(1)], &[])), "timestamp": 78, "hash": st.fresh_hash, "tx_idx": 0, "inscription_id": format!("c12-c-{}", st.n), "inscription_byte_len": 100000, "op_return_tx_id": zero}),
        "brc20_transact" => json!({"raw_tx_data": st.raw_tx, "timestamp": 78, "hash": st.fresh_hash, "tx_idx": 0, "inscription_id": format!("c12-t-{}", st.n), "inscription_byte_len": 100000, "op_return_tx_id": zero}),
        "brc20_deposit" => json!({"to_pkscript": PK, "ticker": "ordi", "amount": "0x10", "timestamp": 78, "hash": st.fresh_hash, "tx_idx": 0, "inscription_id": format!("c12-dep-{}", st.n)}),
        "brc20_withdraw" => json!({"from_pkscript": PK, "ticker": "ordi", "amount": "0x1", "timestamp": 78, "hash": st.fresh_hash, "tx_idx": 0, "inscription_id": format!("c12-w-{}", st.n)}),
        "brc20_balance" => json!({"pkscript": PK, "ticker": "ordi"}),
        "brc20_initialise" => json!({"genesis_hash": st.fresh_hash, "genesis_timestamp": 5, "genesis_height": st.next_height}),
        "brc20_getTxReceiptByInscriptionId" => json!({"inscription_id": "c12-setup-tool"}),
        "brc20_getInscriptionIdByTxHash" => json!({"transaction": st.tx_hash}),
        "brc20_getInscriptionIdByContractAddress" => json!({"contract_address": st.tool}),
        "brc20_finaliseBlock" => json!({"timestamp": 78, "hash": st.fresh_hash, "block_tx_count": 0}),
        "brc20_reorg" => json!({"latest_valid_block_number": st.next_height.saturating_sub(2)}),
        "eth_getBlockByNumber" => json!(["latest", false]),
        "eth_getBlockByHash" => json!([st.block_hash, true]),
        "eth_getTransactionCount" => json!([hist::INDEXER, "latest"]),
        "eth_getBlockTransactionCountByNumber" => json!(["0x1"]),
        "eth_getBlockTransactionCountByHash" => json!([st.block_hash]),
        "eth_getLogs" => json!([{"fromBlock": "0x0", "toBlock": "0x2"}]),
        "eth_call" | "eth_estimateGas" => json!([{"to": st.tool, "data": hist::hx(&asm::tool_call(asm::OP_INC, &[asm::word_u64(1)], &[]))}]),
        "eth_callMany" | "eth_estimateGasMany" => json!([[{"to": st.tool, "data": hist::hx(&asm::tool_call(asm::OP_SSTORE, &[asm::word_u64(1), asm::word_u64(9)], &[]))}]]),
        "eth_getStorageAt" => json!([st.tool, "0x1"]),
        "eth_getCode" => json!([st.tool]),
        "eth_getTransactionReceipt" | "debug_traceTransaction" | "eth_getTransactionByHash" => json!([st.tx_hash]),
        "debug_getBlockTraceString" | "debug_getBlockTraceHash" => json!(["0x1"]),
        "eth_getTransactionByBlockNumberAndIndex" => json!([1, 0]),
        "eth_getTransactionByBlockHashAndIndex" => json!([st.block_hash, 0]),
        "eth_getBalance" => json!([st.tool, "latest"]),
        "eth_getUncleCountByBlockNumber" => json!([1]),
        "eth_getUncleCountByBlockHash" => json!([st.block_hash]),
        "eth_getUncleByBlockNumberAndIndex" => json!([1, 0]),
        "eth_getUncleByBlockHashAndIndex" => json!([st.block_hash, 0]),
        "web3_sha3" => json!(["0x1234"]),
        "txpool_contentFrom" => json!([hist::INDEXER]),
        "debug_getRawHeader" | "debug_getRawBlock" | "debug_getRawReceipts" => json!(["0x1"]),
        _ => return None,
    })
}

#[derive(Clone)]
pub struct Tmpl {
    pub tool: String,
    pub tx_hash: String,
    pub block_hash: String,
    pub fresh_hash: String,
    pub raw_tx: String,
    pub next_height: u64,
    pub n: u64,
}

/// Authorised setup: genesis, a tool, some tokens, committed.
/// Set when the authorised set-up itself (correct credentials, also sent to servers that do not ask for
/// any) was answered with 401: that is the property failing, not a reason to skip the sweep.
static SETUP_REFUSED: std::sync::atomic::AtomicBool = std::sync::atomic::AtomicBool::new(false);

fn setup_failed(rep: &mut WorkerReport, seed: u64, auth: bool) {
    if SETUP_REFUSED.swap(false, std::sync::atomic::Ordering::SeqCst) {
        violation(rep, "C12", seed, &format!("authorised-call-refused:auth={}", auth), format!("auth={}: brc20_initialise sent with the configured credentials was answered with 401", auth), json!({}));
    } else {
        rep.inconclusive("authorised setup failed");
    }
}

fn setup(addr: &str, dir: &Path) -> Option<Tmpl> {
    let mut i = Inst::over_http(dir, addr, vec![http::basic(USER, PASS)]);
    let r0 = i.call("brc20_initialise", json!({"genesis_hash": hist::ZERO_HASH, "genesis_timestamp": 1, "genesis_height": 0}));
    if let Resp::Err { code: 401, .. } = &r0 {
        SETUP_REFUSED.store(true, std::sync::atomic::Ordering::SeqCst);
        return None;
    }
    let bh = crate::hist::bh((0xc12u64) as u64);
    let r = i.call("brc20_deploy", json!({"from_pkscript": PK, "data": hist::hx(&asm::tool_init()), "timestamp": 2, "hash": bh, "tx_idx": 0, "inscription_id": "c12-setup-tool", "inscription_byte_len": 100000, "op_return_tx_id": hist::ZERO_HASH}));
    let tool = hist::created_address(&r)?;
    let tx_hash = hist::receipts_in(&r)[0]["transactionHash"].as_str()?.to_string();
    i.call("brc20_deposit", json!({"to_pkscript": PK, "ticker": "ordi", "amount": "0x100", "timestamp": 2, "hash": bh, "tx_idx": 1, "inscription_id": "c12-setup-dep"}));
    i.call("brc20_finaliseBlock", json!({"timestamp": 2, "hash": bh, "block_tx_count": 2}));
    i.call("brc20_mine", json!({"block_count": 2, "timestamp": 3}));
    i.call("brc20_commitToDatabase", json!([]));
    let s = Signer::new(41);
    let raw = s.sign(Some(rpc::chain_id_for("regtest")), 0, Some(hist::parse_addr(&tool)), &asm::tool_call(asm::OP_INC, &[asm::word_u64(2)], &[]));
    Some(Tmpl { tool, tx_hash, block_hash: bh, fresh_hash: crate::hist::bh((0xf00du64) as u64), raw_tx: format!("0x{}", raw), next_height: 4, n: 0 })
}

fn digest(addr: &str, dir: &Path) -> String {
    let mut i = Inst::over_http(dir, addr, vec![http::basic(USER, PASS)]);
    i.timeout = Duration::from_secs(30);
    let a = i.call("eth_blockNumber", json!([]));
    let b = i.call("txpool_content", json!([]));
    let c = i.call("brc20_balance", json!({"pkscript": PK, "ticker": "ordi"}));
    let d = i.call("eth_getStorageAt", json!(["0x0000000000000000000000000000000000003ca6", "0x0"]));
    format!("{}|{}|{}|{}", canon_string(&a.to_json()), canon_string(&b.to_json()), canon_string(&c.to_json()), canon_string(&d.to_json()))
}

fn has_401(v: &Value) -> bool {
    match v {
        Value::Array(a) => a.iter().any(has_401),
        Value::Object(o) => o.get("error").and_then(|e| e.get("code")).and_then(|c| c.as_i64()) == Some(401),
        _ => false,
    }
}

fn element_by_id<'a>(v: &'a Value, id: i64) -> Option<&'a Value> {
    match v {
        Value::Array(a) => a.iter().find(|x| x.get("id").and_then(|i| i.as_i64()) == Some(id)),
        Value::Object(o) => {
            if o.get("id").and_then(|i| i.as_i64()) == Some(id) {
                Some(v)
            } else {
                None
            }
        }
        _ => None,
    }
}

fn sweep(ctx: &WorkerCtx, rep: &mut WorkerReport, auth: bool, methods: &[String], deny: &BTreeSet<String>, variants: &[(&'static str, Vec<String>, bool)], btc: &str) -> BTreeSet<String> {
    let mut refused_methods = BTreeSet::new();
    let dir = rpc::fresh_dir("C12");
    let srv = match start(auth, &dir, btc, 50) {
        Ok(s) => s,
        Err(e) => {
            rep.inconclusive(format!("server did not start: {}", e));
            return refused_methods;
        }
    };
    let Some(mut st) = setup(&srv.addr, &dir) else {
        setup_failed(rep, ctx.seed, auth);
        stop(srv);
        return refused_methods;
    };
    let t = Duration::from_secs(60);
    let mut dg = digest(&srv.addr, &dir);
    // the last five forms are only sent for indexer-only methods (they add nothing for public ones)
    let forms = ["call", "notification", "batch-first", "batch-middle", "batch-last", "batch-notifications", "call-string-id", "batch-single", "batch-long-last", "batch-two-denied", "batch-notification-mixed", "batch-junk-before", "batch-at-limit", "batch-below-limit"];
    'outer: for (vname, headers, authorised_hdr) in variants {
        let authorised = *authorised_hdr || !auth;
        for m in methods {
            for form in forms {
                st.fresh_hash = crate::hist::bh((0xf00d_0000u64 + st.n + 1) as u64);
                let Some(params) = template(m, &st) else {
                    // a registered method this harness has no parameters for (an alias, a new method):
                    // whatever it is, an unauthorised caller must not be able to change state through it.
                    // It is tried with the parameters of every indexer-only method.
                    rep.set_add("methods_without_template", m.clone());
                    if form == "call" && !authorised {
                        for k in deny.iter() {
                            st.n += 1;
                            st.fresh_hash = crate::hist::bh((0xf00d_0000u64 + st.n) as u64);
                            let Some(pk) = template(k, &st) else { continue };
                            let body = json!({"jsonrpc": "2.0", "id": 7, "method": m, "params": pk});
                            let _ = http::post(&srv.addr, headers, &body.to_string(), t);
                            rep.evaluations += 1;
                            let d2 = digest(&srv.addr, &dir);
                            if d2 != dg {
                                violation(rep, "C12", ctx.seed, &format!("unlisted-method-changed-state:{}", m), format!("auth=true hdr={}: the registered method {} (not on the protected list, unknown to the harness) changed state when called without credentials with the parameters of {}", vname, m, k), json!({"request": body}));
                                break 'outer;
                            }
                        }
                        rep.nontrivial(format!("unknown-method-probed:{}:{}", vname, m));
                    }
                    continue;
                };
                st.n += 1;
                let target = json!({"jsonrpc": "2.0", "id": 7, "method": m, "params": params});
                let notif = json!({"jsonrpc": "2.0", "method": m, "params": params});
                let p1 = json!({"jsonrpc": "2.0", "id": 1, "method": "eth_chainId", "params": []});
                let p2 = json!({"jsonrpc": "2.0", "id": 2, "method": "eth_blockNumber", "params": []});
                let extended = ["call-string-id", "batch-single", "batch-long-last", "batch-two-denied", "batch-notification-mixed", "batch-junk-before", "batch-at-limit", "batch-below-limit"].contains(&form);
                if extended && !deny.contains(m) {
                    continue;
                }
                let body = match form {
                    "call" => target.clone(),
                    "notification" => notif.clone(),
                    "batch-first" => json!([target, p1, p2]),
                    "batch-middle" => json!([p1, target, p2]),
                    "batch-last" => json!([p1, p2, target]),
                    "call-string-id" => json!({"jsonrpc": "2.0", "id": "seven", "method": m, "params": params}),
                    "batch-single" => json!([target]),
                    "batch-long-last" => {
                        let mut v: Vec<Value> = (0..30).map(|k| json!({"jsonrpc": "2.0", "id": 100 + k, "method": if k % 2 == 0 { "eth_chainId" } else { "eth_blockNumber" }, "params": []})).collect();
                        v.push(target.clone());
                        Value::Array(v)
                    }
                    "batch-two-denied" => json!([json!({"jsonrpc": "2.0", "id": 8, "method": "brc20_clearCaches", "params": []}), p1, target]),
                    "batch-notification-mixed" => json!([p1, notif, p2]),
                    "batch-at-limit" | "batch-below-limit" => {
                        // the largest batch the server still executes (limit 50), and one element less
                        let total = if form == "batch-at-limit" { 50 } else { 49 };
                        let at = (st.n as usize * 7) % total;
                        let mut v: Vec<Value> = (0..total - 1).map(|k| json!({"jsonrpc": "2.0", "id": 100 + k, "method": if k % 2 == 0 { "eth_chainId" } else { "eth_blockNumber" }, "params": []})).collect();
                        v.insert(at, target.clone());
                        Value::Array(v)
                    }
                    "batch-junk-before" => {
                        // an element that is not a JSON-RPC request in front of the protected call
                        let junk = match st.n % 6 {
                            0 => json!(1),
                            1 => json!(null),
                            2 => json!({}),
                            3 => json!("x"),
                            4 => json!({"jsonrpc": "1.0", "id": 3, "method": "eth_chainId", "params": []}),
                            _ => json!({"jsonrpc": "2.0", "id": 3, "params": []}),
                        };
                        json!([junk, target])
                    }
                    _ => json!([notif, notif]),
                };
                let must_refuse = deny.contains(m) && !authorised;
                if authorised && deny.contains(m) {
                    // authorised (or auth disabled): every method works. One plain call per method;
                    // it may change state, so the baseline digest is refreshed afterwards.
                    if form != "call" {
                        continue;
                    }
                    let resp = http::post(&srv.addr, headers, &body.to_string(), t);
                    rep.evaluations += 1;
                    if let Ok(r) = resp {
                        let v: Value = serde_json::from_str(&r.body).unwrap_or(Value::Null);
                        if has_401(&v) {
                            violation(rep, "C12", ctx.seed, &format!("authorised-call-refused:auth={}", auth), format!("auth={} hdr={}: {} was answered with 401 although the request is authorised", auth, vname, m), json!({"response": v}));
                            break 'outer;
                        }
                        rep.nontrivial(format!("authorised-served:{}:{}", auth, m));
                    }
                    // undo whatever it did that is not committed, and take a new baseline
                    let mut i = Inst::over_http(&dir, &srv.addr, vec![http::basic(USER, PASS)]);
                    i.call("brc20_clearCaches", json!([]));
                    st.next_height = match i.call("eth_blockNumber", json!([])) {
                        Resp::Ok(Value::String(s)) => u64::from_str_radix(s.trim_start_matches("0x"), 16).unwrap_or(3) + 1,
                        _ => 4,
                    };
                    dg = digest(&srv.addr, &dir);
                    continue;
                }
                let resp = http::post(&srv.addr, headers, &body.to_string(), t);
                rep.evaluations += 1;
                let resp = match resp {
                    Ok(r) => r,
                    Err(e) => {
                        rep.inconclusive(format!("http error on {} {} {}: {}", m, form, vname, e));
                        continue;
                    }
                };
                let v: Value = serde_json::from_str(&resp.body).unwrap_or(Value::Null);
                let cell = format!("auth={} hdr={} form={} method={}", auth, vname, form, m);
                if must_refuse {
                    rep.nontrivial(format!("{}:{}:{}:{}", auth, vname, form, m));
                    if form.starts_with("call") || form.starts_with("batch-") && form != "batch-notifications" && form != "batch-notification-mixed" {
                        let el = if form == "call-string-id" { if v.get("id").and_then(|i| i.as_str()) == Some("seven") { Some(&v) } else { None } } else { element_by_id(&v, 7) };
                        if form == "batch-two-denied" {
                            let first = element_by_id(&v, 8).and_then(|e| e.get("error")).and_then(|e| e.get("code")).and_then(|c| c.as_i64());
                            if first != Some(401) {
                                violation(rep, "C12", ctx.seed, &format!("not-refused:{}:{}", form, vname), format!("{}: the first of two indexer-only calls in one batch was not answered with 401: {}", cell, &resp.body[..resp.body.len().min(300)]), json!({"cell": cell, "request": body, "response": v}));
                                break 'outer;
                            }
                        }
                        let code = el.and_then(|e| e.get("error")).and_then(|e| e.get("code")).and_then(|c| c.as_i64());
                        let msg = el.and_then(|e| e.get("error")).and_then(|e| e.get("message")).and_then(|c| c.as_str()).unwrap_or("");
                        if code != Some(401) || msg != "Unauthorized" {
                            violation(rep, "C12", ctx.seed, &format!("not-refused:{}:{}", form, vname), format!("{}: an indexer-only method was not answered with 401 Unauthorized: {}", cell, &resp.body[..resp.body.len().min(300)]), json!({"cell": cell, "request": body, "response": v}));
                            break 'outer;
                        }
                        refused_methods.insert(m.clone());
                        if rep.samples.len() < 2 {
                            rep.sample(json!({"cell": cell, "request": body, "response": v}));
                        }
                        if ["batch-first", "batch-middle", "batch-last"].contains(&form) {
                            // the permitted elements of the same batch are served
                            for id in [1, 2] {
                                let ok = element_by_id(&v, id).map(|e| e.get("result").is_some()).unwrap_or(false);
                                if !ok {
                                    violation(rep, "C12", ctx.seed, "public-element-not-served-in-mixed-batch", format!("{}: a permitted call in the same batch was not served", cell), json!({"cell": cell, "response": v}));
                                    break 'outer;
                                }
                            }
                        }
                    }
                    let d2 = digest(&srv.addr, &dir);
                    if d2 != dg {
                        violation(rep, "C12", ctx.seed, &format!("unauthorised-request-changed-state:{}", form), format!("{}: state changed after an unauthorised request", cell), json!({"cell": cell, "request": body, "before": dg, "after": d2}));
                        break 'outer;
                    }
                } else if !deny.contains(m) {
                    // public method: must be served whatever the header says
                    if has_401(&v) {
                        violation(rep, "C12", ctx.seed, &format!("public-method-refused:{}", vname), format!("{}: a public method was answered with 401", cell), json!({"cell": cell, "response": v}));
                        break 'outer;
                    }
                    if form == "call" && v.get("result").is_none() && v.get("error").is_none() {
                        violation(rep, "C12", ctx.seed, "public-method-no-answer", format!("{}: no JSON-RPC answer (HTTP {})", cell, resp.status), json!({"cell": cell, "body": resp.body}));
                        break 'outer;
                    }
                    if !authorised {
                        // unauthorised public requests must not change state either
                        if st.n % 7 == 0 {
                            let d2 = digest(&srv.addr, &dir);
                            if d2 != dg {
                                violation(rep, "C12", ctx.seed, "public-request-changed-state", format!("{}: state changed after an unauthorised public request", cell), json!({"cell": cell}));
                                break 'outer;
                            }
                            rep.nontrivial(format!("state-unchanged:{}:{}:{}", vname, form, m));
                        }
                    }
                }
                rep.count(&format!("cells:auth={}:{}", auth, vname), 1);
            }
        }
        dg = digest(&srv.addr, &dir);
    }
    stop(srv);
    rpc::remove_dir(&dir);
    refused_methods
}

/// Classify each method by effect when invoked authorised; mutating methods must be deny-listed.
fn classify(ctx: &WorkerCtx, rep: &mut WorkerReport, methods: &[String], deny: &BTreeSet<String>, btc: &str) {
    let dir = rpc::fresh_dir("C12");
    let srv = match start(true, &dir, btc, 50) {
        Ok(s) => s,
        Err(e) => {
            rep.inconclusive(format!("server did not start: {}", e));
            return;
        }
    };
    let Some(mut st) = setup(&srv.addr, &dir) else {
        setup_failed(rep, ctx.seed, true);
        stop(srv);
        return;
    };
    let auth_hdr = vec![http::basic(USER, PASS)];
    let mut u = Universe::new();
    u.addrs.insert(st.tool.to_lowercase());
    u.hashes.insert(st.tx_hash.clone());
    u.hashes.insert(st.block_hash.clone());
    u.hashes.insert(st.fresh_hash.clone());
    u.iids.insert("c12-setup-tool".into());
    u.pk_tickers.insert((PK.to_string(), "ordi".to_string()));
    u.max_height = 6;
    // brc20_initialise can only take effect on an uninitialised database: classify it there
    {
        let d0 = rpc::fresh_dir("C12");
        if let Ok(s0) = start(true, &d0, btc, 50) {
            let mut i = Inst::over_http(&d0, &s0.addr, auth_hdr.clone());
            let b = i.call("eth_getBlockByNumber", json!(["0x0", false]));
            let r = i.call("brc20_initialise", json!({"genesis_hash": hist::ZERO_HASH, "genesis_timestamp": 1, "genesis_height": 0}));
            let a = i.call("eth_getBlockByNumber", json!(["0x0", false]));
            rep.evaluations += 1;
            if r.is_ok() && a != b {
                rep.set_add("classified_mutating", "brc20_initialise");
                rep.nontrivial("classified-mutating:brc20_initialise".to_string());
                if !deny.contains("brc20_initialise") {
                    violation(rep, "C12", ctx.seed, "mutating-method-not-protected:brc20_initialise", "brc20_initialise changes state but is not on the protected list".into(), json!({}));
                }
            }
            stop(s0);
        }
        rpc::remove_dir(&d0);
        // registered methods without a template: could one of them initialise a fresh database without credentials?
        for m in methods.iter().filter(|m| template(m, &st).is_none() && !deny.contains(*m)) {
            let d1 = rpc::fresh_dir("C12");
            if let Ok(s1) = start(true, &d1, btc, 50) {
                let body = json!({"jsonrpc": "2.0", "id": 7, "method": m, "params": {"genesis_hash": hist::ZERO_HASH, "genesis_timestamp": 1, "genesis_height": 0}});
                let _ = http::post(&s1.addr, &[], &body.to_string(), Duration::from_secs(30));
                let mut i = Inst::over_http(&d1, &s1.addr, auth_hdr.clone());
                rep.evaluations += 1;
                if i.call("eth_getBlockByNumber", json!(["0x0", false])).ok().map(|b| !b.is_null()).unwrap_or(false) {
                    violation(rep, "C12", ctx.seed, &format!("unlisted-method-changed-state:{}", m), format!("the registered method {} (not on the protected list) initialised a fresh database without credentials", m), json!({"request": body}));
                }
                stop(s1);
            }
            rpc::remove_dir(&d1);
        }
    }
    for m in methods {
        st.n += 1;
        st.fresh_hash = crate::hist::bh((0xf00d_0000u64 + st.n) as u64);
        let Some(params) = template(m, &st) else {
            rep.inconclusive(format!("no parameter template for registered method {} (unclassified)", m));
            continue;
        };
        let mut i = Inst::over_http(&dir, &srv.addr, auth_hdr.clone());
        let before = obs::observe(&mut i, &u, ObsMode::Boundary);
        let r = i.call(m, params);
        rep.evaluations += 1;
        // open block? an executing read stalls (5 s) and fails while a block is under construction
        let probe = i.call("brc20_commitToDatabase", json!([]));
        let open_block = probe.err_msg().map(|x| x.contains("waiting txes")).unwrap_or(false);
        let after = if open_block { before.clone() } else { obs::observe(&mut i, &u, ObsMode::Boundary) };
        let changed = open_block || !before.diff(&after).is_empty();
        rep.set_add(if changed { "classified_mutating" } else { "classified_read_only" }, m.clone());
        if !changed && deny.contains(m) && !m.starts_with("debug_") && m != "brc20_commitToDatabase" && m != "brc20_clearCaches" && m != "brc20_initialise" {
            rep.notes.push(format!("deny-listed {} had no observable effect in the classification run: {}", m, r.short()));
        }
        if changed && !deny.contains(m) {
            let d = before.diff(&after);
            violation(rep, "C12", ctx.seed, &format!("mutating-method-not-protected:{}", m), format!("{} changes state (open block: {}, {} queries differ) but is not on the protected list", m, open_block, d.len()), json!({"method": m, "response": r.short(), "differences": obs::diff_summary(&d, 6)}));
            break;
        }
        if changed {
            rep.nontrivial(format!("classified-mutating:{}", m));
            // back to the committed baseline where possible
            i.call("brc20_clearCaches", json!([]));
            st.next_height = match i.call("eth_blockNumber", json!([])) {
                Resp::Ok(Value::String(s)) => u64::from_str_radix(s.trim_start_matches("0x"), 16).unwrap_or(3) + 1,
                _ => 4,
            };
        }
    }
    stop(srv);
    rpc::remove_dir(&dir);
}

/// After a full unauthorised sweep, a fixed authorised script must answer exactly like on a twin.
fn twin_after_sweep(ctx: &WorkerCtx, rep: &mut WorkerReport, methods: &[String], deny: &BTreeSet<String>, btc: &str) {
    let script = |addr: &str, dir: &Path| -> Vec<Value> {
        let mut i = Inst::over_http(dir, addr, vec![http::basic(USER, PASS)]);
        let h = crate::hist::bh((0x5c21u64) as u64);
        let mut out = Vec::new();
        out.push(i.call("brc20_deploy", json!({"from_pkscript": PK, "data": hist::hx(&asm::tool_init_with_ctor()), "timestamp": 90, "hash": h, "tx_idx": 0, "inscription_id": "c12-script-1", "inscription_byte_len": 100000, "op_return_tx_id": hist::ZERO_HASH})).to_json());
        out.push(i.call("brc20_withdraw", json!({"from_pkscript": PK, "ticker": "ordi", "amount": "0x5", "timestamp": 90, "hash": h, "tx_idx": 1, "inscription_id": "c12-script-2"})).to_json());
        out.push(i.call("brc20_finaliseBlock", json!({"timestamp": 90, "hash": h, "block_tx_count": 2})).to_json());
        out.push(i.call("brc20_commitToDatabase", json!([])).to_json());
        out.push(i.call("eth_getBlockByNumber", json!(["latest", true])).to_json());
        out.push(i.call("brc20_balance", json!({"pkscript": PK, "ticker": "ordi"})).to_json());
        out.push(i.call("txpool_content", json!([])).to_json());
        for v in out.iter_mut() {
            obs::canon(v);
        }
        out
    };
    let mut results = Vec::new();
    for do_sweep in [true, false] {
        let dir = rpc::fresh_dir("C12");
        let Ok(srv) = start(true, &dir, btc, 50) else {
            rep.inconclusive("server did not start");
            return;
        };
        let Some(mut st) = setup(&srv.addr, &dir) else {
            setup_failed(rep, ctx.seed, true);
            stop(srv);
            return;
        };
        if do_sweep {
            for m in methods {
                if !deny.contains(m) {
                    continue;
                }
                st.n += 1;
                st.fresh_hash = crate::hist::bh((0xf00d_0000u64 + st.n) as u64);
                if let Some(p) = template(m, &st) {
                    for body in [json!({"jsonrpc": "2.0", "id": 7, "method": m, "params": p}), json!({"jsonrpc": "2.0", "method": m, "params": p}), json!([{"jsonrpc": "2.0", "method": m, "params": p}, {"jsonrpc": "2.0", "id": 1, "method": "eth_chainId", "params": []}])] {
                        let _ = http::post(&srv.addr, &[], &body.to_string(), Duration::from_secs(30));
                        rep.evaluations += 1;
                    }
                }
            }
        }
        results.push(script(&srv.addr, &dir));
        stop(srv);
        rpc::remove_dir(&dir);
    }
    if results[0] != results[1] {
        let k = results[0].iter().zip(results[1].iter()).position(|(a, b)| a != b).unwrap_or(0);
        violation(rep, "C12", ctx.seed, "script-after-unauthorised-sweep-differs", format!("after a sweep of unauthorised indexer calls (call, notification, batch) the authorised script step {} answers differently from a server that never saw the sweep", k), json!({"step": k, "after_sweep": results[0][k], "twin": results[1][k]}));
    } else {
        rep.nontrivial("twin-after-sweep".to_string());
    }
}

pub fn worker(ctx: &WorkerCtx) -> WorkerReport {
    rpc::install_panic_hook();
    let btc = crate::fakebtc::start("regtest");
    let mut rep = WorkerReport::default();
    // the real method table and the real deny list
    rpc::set_global_config("regtest", true, &btc);
    let names: Vec<String> = {
        let d = rpc::fresh_dir("C12");
        let i = Inst::open(&d).expect("open");
        let n = i.method_names();
        drop(i);
        rpc::remove_dir(&d);
        n
    };
    let deny: BTreeSet<String> = brc20_prog::verif::INDEXER_METHODS.iter().cloned().collect();
    // cross-check against the #[method(name = ...)] attributes of the API trait
    if let Ok(src) = std::fs::read_to_string("/repo/src/api/api.rs") {
        let declared: BTreeSet<String> = src.split("#[method(name = \"").skip(1).filter_map(|s| s.split('"').next().map(|x| x.to_string())).collect();
        let table: BTreeSet<String> = names.iter().cloned().collect();
        if declared != table {
            rep.notes.push(format!("method table and api.rs attributes differ: only in table {:?}, only in source {:?}", table.difference(&declared).collect::<Vec<_>>(), declared.difference(&table).collect::<Vec<_>>()));
        }
    }
    rep.count("registered_methods", if ctx.shard == 0 { names.len() as u64 } else { 0 });
    let variants = header_variants();
    let nv = variants.len() as u64;
    // shards: 0..nv-1 -> auth on with header variant k; nv..2nv-1 -> auth off; then classify; then twin
    let s = ctx.shard;
    if s < nv {
        let refused = sweep(ctx, &mut rep, true, &names, &deny, &variants[s as usize..s as usize + 1], &btc);
        if !variants[s as usize].2 {
            let missing: Vec<&String> = deny.iter().filter(|m| !refused.contains(*m) && names.contains(m)).collect();
            if !missing.is_empty() && rep.violations.is_empty() {
                rep.inconclusive(format!("deny-listed methods never seen refused under header {}: {:?}", variants[s as usize].0, missing));
            }
        }
    } else if s < 2 * nv {
        let k = (s - nv) as usize;
        sweep(ctx, &mut rep, false, &names, &deny, &variants[k..k + 1], &btc);
    } else if s == 2 * nv {
        classify(ctx, &mut rep, &names, &deny, &btc);
    } else if s > 2 * nv + 1 {
        random_batches(ctx, &mut rep, &names, &deny, &variants, &btc);
    } else {
        twin_after_sweep(ctx, &mut rep, &names, &deny, &btc);
        credential_alphabet(ctx, &mut rep, &btc);
        // start() must fail when auth is enabled without credentials
        for (u, p) in [(None, Some(PASS.to_string())), (Some(USER.to_string()), None), (None, None)] {
            let dir = rpc::fresh_dir("C12");
            let mut c = rpc::make_config("regtest", true, &btc, dir.to_str().unwrap());
            c.brc20_prog_rpc_server_url = format!("127.0.0.1:{}", http::free_port());
            c.brc20_prog_rpc_server_enable_auth = true;
            c.brc20_prog_rpc_server_user = u.clone();
            c.brc20_prog_rpc_server_password = p.clone();
            let r = rpc::rt().block_on(async { brc20_prog::start(c).await.map_err(|e| e.to_string()) });
            rep.evaluations += 1;
            match r {
                Ok(h) => {
                    let _ = h.stop();
                    violation(&mut rep, "C12", ctx.seed, "auth-enabled-without-credentials-started", format!("start() succeeded with auth enabled and user={:?} password={:?}", u, p.is_some()), json!({}));
                }
                Err(_) => rep.nontrivial(format!("start-refused:{}:{}", u.is_some(), p.is_some())),
            }
            rpc::remove_dir(&dir);
        }
    }
    let _ = BTreeMap::<u8, u8>::new();
    rep
}

/// Credentials are configuration, not a constant: servers configured with credentials from the whole
/// alphabet RFC 7617 allows (bytes whose base64 contains '+', '/' and either padding, UTF-8, a colon in the
/// password, long values). The right pair must open the indexer interface, a pair differing in one
/// character (and the same header without its last character) must not.
fn credential_alphabet(ctx: &WorkerCtx, rep: &mut WorkerReport, btc: &str) {
    use base64::Engine;
    let mut rng = ctx.rng();
    let mut pairs: Vec<(String, String)> = vec![
        ("indexer".into(), "?question".into()),
        ("indexer".into(), "~tilde~~".into()),
        ("ab".into(), ">>>>>>>>".into()),
        ("пользователь".into(), "пароль".into()),
        ("indexer".into(), "hasłoZażółć".into()),
        ("用户".into(), "p\u{1F511}w".into()),
        ("user".into(), "pass:with:colons".into()),
        ("u".into(), "p".into()),
        ("x".into(), "y".repeat(300)),
    ];
    for _ in 0..(if ctx.thorough() { 40 } else { 5 }) {
        let n = rng.range(1, 24) as usize;
        let pw: String = (0..n).map(|_| (0x21 + rng.below(0x5e) as u8) as char).collect();
        pairs.push((format!("idx{}", rng.below(1000)), pw));
    }
    let mine = json!({"jsonrpc": "2.0", "id": 1, "method": "brc20_mine", "params": {"block_count": 1, "timestamp": 5}}).to_string();
    let t = Duration::from_secs(30);
    for (u, p) in pairs {
        let dir = rpc::fresh_dir("C12");
        let mut c = rpc::make_config("regtest", true, btc, dir.to_str().unwrap());
        let port = http::free_port();
        c.brc20_prog_rpc_server_url = format!("127.0.0.1:{}", port);
        c.brc20_prog_rpc_server_enable_auth = true;
        c.brc20_prog_rpc_server_user = Some(u.clone());
        c.brc20_prog_rpc_server_password = Some(p.clone());
        let handle = match rpc::rt().block_on(async { brc20_prog::start(c).await.map_err(|e| e.to_string()) }) {
            Ok(h) => h,
            Err(e) => {
                rep.inconclusive(format!("server with generated credentials did not start: {}", e));
                rpc::remove_dir(&dir);
                continue;
            }
        };
        let addr = format!("127.0.0.1:{}", port);
        let enc = base64::prelude::BASE64_STANDARD.encode(format!("{}:{}", u, p));
        let class = format!("{}{}{}{}", if enc.contains('+') { "+" } else { "" }, if enc.contains('/') { "/" } else { "" }, if enc.ends_with("==") { "==" } else if enc.ends_with('=') { "=" } else { "" }, if !u.is_ascii() || !p.is_ascii() { "utf8" } else { "" });
        // wrong first: nothing may have been mined when the right pair is tried
        let mut wrong_p = p.clone();
        let last = wrong_p.pop().unwrap_or('a');
        wrong_p.push(if last == 'z' { 'y' } else { 'z' });
        // credentials with characters beyond U+00FF have no single-byte form: the same characters cut
        // down to one byte each are other credentials
        let cut: Vec<u8> = format!("{}:{}", u, p).chars().map(|c| c as u32 as u8).collect();
        let cut_hdr = if format!("{}:{}", u, p).chars().any(|c| c as u32 > 0xff) { format!("Authorization: Basic {}", base64::prelude::BASE64_STANDARD.encode(&cut)) } else { http::basic(&u, &wrong_p) };
        for (name, hdr) in [("one-char-off", http::basic(&u, &wrong_p)), ("header-cut-short", format!("Authorization: Basic {}", &enc[..enc.len() - 1])), ("code-points-cut-to-one-byte", cut_hdr), ("none", String::new())] {
            let hs: Vec<String> = if hdr.is_empty() { vec![] } else { vec![hdr] };
            rep.evaluations += 1;
            match http::post(&addr, &hs, &mine, t) {
                Ok(r) => {
                    let v: Value = serde_json::from_str(&r.body).unwrap_or(Value::Null);
                    if !has_401(&v) {
                        violation(rep, "C12", ctx.seed, &format!("not-refused:credential-alphabet:{}", name), format!("a server configured with generated credentials (base64 class '{}') served brc20_mine under header variant {}: {}", class, name, &r.body[..r.body.len().min(200)]), json!({"user": u, "password": p}));
                    } else {
                        rep.nontrivial(format!("credential-alphabet:refused:{}:{}", class, name));
                    }
                }
                Err(e) => rep.inconclusive(format!("http error: {}", e)),
            }
        }
        rep.evaluations += 1;
        match http::post(&addr, &[http::basic(&u, &p)], &mine, t) {
            Ok(r) => {
                let v: Value = serde_json::from_str(&r.body).unwrap_or(Value::Null);
                if has_401(&v) || v.get("result").is_none() {
                    violation(rep, "C12", ctx.seed, "authorised-call-refused:credential-alphabet", format!("the configured credentials (base64 class '{}') were refused: {}", class, &r.body[..r.body.len().min(200)]), json!({"user": u, "password": p, "base64": enc}));
                } else {
                    rep.nontrivial(format!("credential-alphabet:served:{}", class));
                }
            }
            Err(e) => rep.inconclusive(format!("http error: {}", e)),
        }
        let _ = handle.stop();
        rpc::rt().block_on(async { handle.stopped().await });
        rpc::remove_dir(&dir);
    }
}

pub fn shards(thorough: bool) -> u64 {
    header_variants().len() as u64 * 2 + 2 + if thorough { 16 } else { 0 }
}

/// Thorough tier: random batch compositions beyond the matrix - 2..50 elements, one to three
/// indexer-only calls at random positions among public calls, notifications and elements that are
/// not requests at all, under a random unauthorised header. Every indexer-only call must be answered
/// 401, every public call served, and the state digest must not move.
fn random_batches(ctx: &WorkerCtx, rep: &mut WorkerReport, methods: &[String], deny: &BTreeSet<String>, variants: &[(&'static str, Vec<String>, bool)], btc: &str) {
    let mut rng = ctx.rng();
    let dir = rpc::fresh_dir("C12");
    let srv = match start(true, &dir, btc, 50) {
        Ok(s) => s,
        Err(e) => {
            rep.inconclusive(format!("server did not start: {}", e));
            return;
        }
    };
    let Some(mut st) = setup(&srv.addr, &dir) else {
        rep.inconclusive("authorised setup failed");
        stop(srv);
        return;
    };
    let t = Duration::from_secs(60);
    let dg = digest(&srv.addr, &dir);
    let unauth: Vec<&(&'static str, Vec<String>, bool)> = variants.iter().filter(|v| !v.2).collect();
    let denied: Vec<&String> = methods.iter().filter(|m| deny.contains(*m)).collect();
    for round in 0..1500u64 {
        let (vname, headers, _) = *rng.pick(&unauth);
        let total = rng.range(2, 50) as usize;
        let ntargets = rng.range(1, 3) as usize;
        let mut elems: Vec<Value> = Vec::new();
        let mut target_ids: Vec<i64> = Vec::new();
        let mut public_ids: Vec<i64> = Vec::new();
        for k in 0..total {
            let id = 1000 + k as i64;
            let e = match rng.below(12) {
                0 => json!(rng.below(5)),
                1 => json!({}),
                2 => json!({"jsonrpc": "2.0", "method": "eth_blockNumber", "params": []}),
                _ => {
                    public_ids.push(id);
                    json!({"jsonrpc": "2.0", "id": id, "method": if k % 2 == 0 { "eth_chainId" } else { "eth_blockNumber" }, "params": []})
                }
            };
            elems.push(e);
        }
        for j in 0..ntargets {
            let m = (*rng.pick(&denied)).clone();
            st.n += 1;
            st.fresh_hash = crate::hist::bh(0xf00e_0000 + st.n);
            let Some(params) = template(&m, &st) else { continue };
            let id = 7000 + j as i64;
            let at = rng.below(elems.len() as u64 + 1) as usize;
            let notification = rng.chance(1, 6);
            if notification {
                elems.insert(at, json!({"jsonrpc": "2.0", "method": m, "params": params}));
            } else {
                elems.insert(at, json!({"jsonrpc": "2.0", "id": id, "method": m, "params": params}));
                target_ids.push(id);
            }
        }
        elems.truncate(50);
        let body = Value::Array(elems);
        let resp = match http::post(&srv.addr, headers, &body.to_string(), t) {
            Ok(r) => r,
            Err(e) => {
                rep.inconclusive(format!("http error on a random batch: {}", e));
                continue;
            }
        };
        rep.evaluations += 1;
        let v: Value = serde_json::from_str(&resp.body).unwrap_or(Value::Null);
        for id in &target_ids {
            // (a call pushed beyond position 50 by the insertions was cut off together with the tail)
            if !body.as_array().map(|a| a.iter().any(|e| e.get("id").and_then(|i| i.as_i64()) == Some(*id))).unwrap_or(false) {
                continue;
            }
            let code = element_by_id(&v, *id).and_then(|e| e.get("error")).and_then(|e| e.get("code")).and_then(|c| c.as_i64());
            if code != Some(401) {
                violation(rep, "C12", ctx.seed, &format!("not-refused:random-batch:{}", vname), format!("hdr={}: an indexer-only call inside a random batch of {} elements was not answered with 401: {}", vname, body.as_array().map(|a| a.len()).unwrap_or(0), &resp.body[..resp.body.len().min(300)]), json!({"request": body, "response": v}));
                stop(srv);
                rpc::remove_dir(&dir);
                return;
            }
        }
        for id in &public_ids {
            if let Some(e) = element_by_id(&v, *id) {
                if e.get("result").is_none() {
                    violation(rep, "C12", ctx.seed, "public-element-not-served-in-mixed-batch", format!("hdr={}: a permitted call of a random batch was not served", vname), json!({"request": body, "response": v}));
                    stop(srv);
                    rpc::remove_dir(&dir);
                    return;
                }
            }
        }
        if round % 5 == 4 || !target_ids.is_empty() && round % 2 == 0 {
            if digest(&srv.addr, &dir) != dg {
                violation(rep, "C12", ctx.seed, "unauthorised-request-changed-state:random-batch", format!("hdr={}: state changed after an unauthorised random batch", vname), json!({"request": body}));
                stop(srv);
                rpc::remove_dir(&dir);
                return;
            }
        }
        rep.nontrivial(format!("random-batch:{}:{}-elements:{}-denied", vname, total / 10 * 10, target_ids.len()));
    }
    rep.count("random_batches", 1500);
    stop(srv);
    rpc::remove_dir(&dir);
}
