//! C07 — the BRC20 bridge ledger is conserved and only the indexer can mint or burn.

use std::collections::BTreeMap;

use alloy::primitives::U256;
use serde_json::{json, Value};

use super::common::*;
use crate::asm;
use crate::hist::{self, Ctx, Driver, Enc, Op, Signer, Target};
use crate::report::{Spec, WorkerReport};
use crate::rng::Rng;
use crate::rpc::{self, Resp};
use crate::WorkerCtx;

pub fn spec() -> Spec {
    Spec {
        prop: "C07",
        level: "exploration",
        rule: "Independent ledger model written from the controller/token Solidity source (per exact ticker bytes: balances, allowances incl. 'spender == owner => unlimited' and the controller as intermediate spender, checked total supply, zero-address rules); the RPC methods lower-case the ticker, user calls use exact bytes. Every operation's success is predicted and compared with the receipt status; after every block brc20_balance, token.balanceOf, token.totalSupply and controller.getTickerAddress are compared with the model for every (pkscript/signer, ticker), and sum(balances) = supply = deposits - withdrawals. Operations: deposits, withdrawals (sufficient/exact/insufficient/unknown ticker), controller transfer/approve/transferFrom, direct token calls, adversarial mint/burn/ownership calls from inscriptions, signed transactions, a forwarder contract and eth_call as the indexer address; reorgs roll the model back. Ticker classes: ASCII, non-ASCII capitals, one byte, empty, longer than 32 bytes, 6 000 bytes, four tickers that differ only by surrounding (ASCII / ideographic) white space, a ticker ending in a capital sigma (context-sensitive lower-casing) and its neighbour ending in the medial form. Holders have pkscripts of five shapes (34, 22, 2, 81 and 20 bytes - one of the 20-byte scripts spells the indexer's address) written in lower, upper and mixed-case hex; amounts include 0, 1, 2^64-1..2^64+8, 2^128-1, 2^128, 2^255, 2^256-2, 2^256-1. Non-trivial = operation whose predicted outcome depended on a non-zero balance or allowance; distinct by (op kind, predicted outcome, ticker class).",
        assumptions: vec!["the model is derived from the Solidity source shipped in the repository, not from the deployed bytecode".into()],
        exhaustive: false,
        min_nontrivial: 2,
    }
}

type A = [u8; 20];

#[derive(Clone, Debug, Default)]
struct Token {
    bal: BTreeMap<A, U256>,
    allow: BTreeMap<(A, A), U256>,
    supply: U256,
}

#[derive(Clone, Debug, Default)]
struct Ledger {
    tokens: BTreeMap<Vec<u8>, Token>,
    deposited: BTreeMap<Vec<u8>, U256>,
    withdrawn: BTreeMap<Vec<u8>, U256>,
}

const ZERO: A = [0u8; 20];

impl Token {
    fn balance(&self, a: &A) -> U256 {
        self.bal.get(a).cloned().unwrap_or(U256::ZERO)
    }
    fn allowance(&self, owner: &A, spender: &A) -> U256 {
        if owner == spender {
            return U256::MAX;
        }
        self.allow.get(&(*owner, *spender)).cloned().unwrap_or(U256::ZERO)
    }
    fn spend_allowance(&mut self, owner: &A, spender: &A, v: U256) -> bool {
        let cur = self.allowance(owner, spender);
        if cur < U256::MAX {
            if cur < v {
                return false;
            }
            // _approve(owner, spender, cur - v): owner/spender must be non-zero
            if *owner == ZERO || *spender == ZERO {
                return false;
            }
            self.allow.insert((*owner, *spender), cur - v);
        }
        true
    }
    fn transfer(&mut self, from: &A, to: &A, v: U256) -> bool {
        if *from == ZERO || *to == ZERO {
            return false;
        }
        let fb = self.balance(from);
        if fb < v {
            return false;
        }
        self.bal.insert(*from, fb - v);
        let tb = self.balance(to);
        self.bal.insert(*to, tb + v);
        true
    }
}

impl Ledger {
    fn mint(&mut self, t: &[u8], to: &A, v: U256) -> bool {
        // controller.mint creates the token first; a failing token.mint reverts the creation too
        let mut tok = self.tokens.get(t).cloned().unwrap_or_default();
        if *to == ZERO {
            return false;
        }
        let Some(ns) = tok.supply.checked_add(v) else { return false };
        tok.supply = ns;
        let b = tok.balance(to);
        tok.bal.insert(*to, b + v);
        self.tokens.insert(t.to_vec(), tok);
        let d = self.deposited.entry(t.to_vec()).or_default();
        *d = d.saturating_add(v);
        true
    }
    fn burn(&mut self, t: &[u8], from: &A, v: U256) -> bool {
        let Some(tok) = self.tokens.get_mut(t) else { return false };
        if *from == ZERO {
            return false;
        }
        let b = tok.balance(from);
        if b < v {
            return false;
        }
        tok.bal.insert(*from, b - v);
        tok.supply -= v;
        let w = self.withdrawn.entry(t.to_vec()).or_default();
        *w = w.saturating_add(v);
        true
    }
}

fn u256_word(v: U256) -> [u8; 32] {
    v.to_be_bytes::<32>()
}

struct TickerClass {
    name: &'static str,
    /// spellings accepted by the RPC methods
    spellings: Vec<&'static str>,
    /// the exact bytes the controller knows the token under
    key: Vec<u8>,
}

/// A ticker of several thousand bytes: legal (nothing bounds the length), and every per-ticker cost
/// (look-up gas, call data, the token's name) grows with it.
fn huge_ticker() -> (&'static str, &'static str) {
    static H: std::sync::OnceLock<(String, String)> = std::sync::OnceLock::new();
    let (l, u) = H.get_or_init(|| {
        let l: String = "hugeticker".chars().cycle().take(6_000).collect();
        let u = l.to_uppercase();
        (l, u)
    });
    (l.as_str(), u.as_str())
}

fn tickers() -> Vec<TickerClass> {
    let (huge_l, huge_u) = huge_ticker();
    vec![
        TickerClass { name: "huge-6000-bytes", spellings: vec![huge_l, huge_u], key: huge_l.as_bytes().to_vec() },
        TickerClass { name: "ascii", spellings: vec!["ordi", "ORDI", "Ordi", "oRdI"], key: b"ordi".to_vec() },
        TickerClass { name: "non-ascii", spellings: vec!["ÄÖ", "äö", "Äö"], key: "äö".as_bytes().to_vec() },
        TickerClass { name: "one-byte", spellings: vec!["x", "X"], key: b"x".to_vec() },
        TickerClass { name: "empty", spellings: vec![""], key: vec![] },
        // tickers that differ only by surrounding white space are different tickers
        TickerClass { name: "ws-plain", spellings: vec!["ws", "WS"], key: b"ws".to_vec() },
        TickerClass { name: "ws-padded-right", spellings: vec!["ws ", "WS ", "Ws "], key: b"ws ".to_vec() },
        TickerClass { name: "ws-padded-left", spellings: vec![" ws", " WS"], key: b" ws".to_vec() },
        TickerClass { name: "ws-ideographic-space", spellings: vec!["ws\u{3000}", "WS\u{3000}"], key: "ws\u{3000}".as_bytes().to_vec() },
        // context-sensitive lower-casing: a capital sigma at the end of a word becomes the final form
        // (U+03C2), as in every Unicode-aware lower-casing; the ticker ending in the medial form is another one
        TickerClass { name: "final-sigma", spellings: vec!["ΟΔΟΣ", "οδος", "Οδος", "ΟΔΟς"], key: "οδος".as_bytes().to_vec() },
        TickerClass { name: "medial-sigma-at-end", spellings: vec!["οδοσ"], key: "οδοσ".as_bytes().to_vec() },
        TickerClass { name: "long", spellings: vec!["averyveryverylongtickernamewithmorethan32bytes", "AVeryVeryVeryLongTickerNameWithMoreThan32Bytes"], key: b"averyveryverylongtickernamewithmorethan32bytes".to_vec() },
    ]
}

fn amount(rng: &mut Rng) -> U256 {
    match rng.below(16) {
        0 => U256::ZERO,
        1 => U256::from(1u64),
        2 => U256::from(1u64) << 64,
        3 => U256::from(1u64) << 255,
        4 => U256::MAX,
        5 => U256::MAX - U256::from(1u64),
        6 => U256::from(1u64) << 128,
        7 => (U256::from(1u64) << 128) - U256::from(1u64),
        8 => (U256::from(1u64) << 64) - U256::from(1u64),
        9 => U256::from(u64::MAX) + U256::from(rng.range(1, 9)),
        _ => U256::from(rng.range(1, 1000)),
    }
}

/// The same script bytes in another hex spelling.
fn spell_pk(rng: &mut Rng, pk: &str) -> String {
    match rng.below(4) {
        0 => pk.to_uppercase(),
        1 => pk.chars().enumerate().map(|(i, c)| if i % 2 == 0 { c.to_ascii_uppercase() } else { c }).collect(),
        _ => pk.to_string(),
    }
}

struct Run<'a> {
    d: Driver,
    ledger: Ledger,
    snapshots: BTreeMap<i64, Ledger>,
    pks: Vec<String>,
    signers: Vec<Signer>,
    chain_id: u64,
    batcher: String,
    uniq: u64,
    ts: u64,
    ctx: &'a WorkerCtx,
    case_seed: u64,
    net: &'a str,
    token_addr: BTreeMap<Vec<u8>, A>,
}

enum Who {
    Pk(usize),
    Signer(usize),
    /// pkscript user through the forwarder contract (msg.sender = forwarder)
    Relay(usize),
}

impl<'a> Run<'a> {
    fn addr_of(&self, w: &Who) -> A {
        match w {
            Who::Pk(i) => hist::pk_address(&self.pks[*i]),
            Who::Signer(i) => self.signers[*i].addr,
            Who::Relay(_) => hist::parse_addr(&self.batcher),
        }
    }

    /// Send `data` to `to` as `who`; returns (executed, success).
    fn send(&mut self, who: &Who, to: &A, data: Vec<u8>, blk: &(u64, String)) -> Option<bool> {
        self.uniq += 1;
        let ctx = Ctx { ts: blk.0, hash: blk.1.clone(), idx: self.d.ntx };
        let iid = format!("c07-{}-{}i0", self.case_seed % 100000, self.uniq);
        let r = match who {
            Who::Pk(i) => self.d.exec(Op::Call { pk: self.pks[*i].clone(), target: Target::Addr(hist::addr_hex(to)), data: Some(hist::hx(&data)), enc: Enc::Hex, ctx, iid, len: 1_000_000, txid: hist::ZERO_HASH.into() }),
            Who::Relay(i) => {
                let cd = asm::batch_call(true, &[(*to, data)]);
                self.d.exec(Op::Call { pk: self.pks[*i].clone(), target: Target::Addr(self.batcher.clone()), data: Some(hist::hx(&cd)), enc: Enc::Hex, ctx, iid, len: 1_000_000, txid: hist::ZERO_HASH.into() })
            }
            Who::Signer(i) => {
                let s = self.signers[*i].clone();
                let n = hist::account_nonce(&mut self.d.inst, &s.addr);
                let raw = s.sign(Some(self.chain_id), n, Some(*to), &data);
                self.d.exec(Op::Transact { raw: format!("0x{}", raw), enc: Enc::Hex, ctx, iid, len: 1_000_000, txid: hist::ZERO_HASH.into() })
            }
        };
        let rc = hist::receipts_in(&r);
        rc.first().map(|x| x["status"].as_str() == Some("0x1"))
    }

    fn eth_call_u256(&mut self, to: &A, data: Vec<u8>) -> Option<U256> {
        match self.d.inst.call("eth_call", json!([{"to": hist::addr_hex(to), "data": hist::hx(&data)}])) {
            Resp::Ok(Value::String(s)) => {
                let b = hex::decode(s.trim_start_matches("0x")).ok()?;
                if b.len() < 32 {
                    return None;
                }
                Some(U256::from_be_slice(&b[..32]))
            }
            _ => None,
        }
    }

    fn fail(&mut self, rep: &mut WorkerReport, sig: &str, what: String, detail: Value) {
        violation(rep, "C07", self.ctx.seed, sig, what, json!({"case_seed": self.case_seed, "network": self.net, "detail": detail, "history": log_json(&self.d.log, 80)}));
    }

    /// Compare the whole ledger with the chain. Only at block boundaries.
    fn audit(&mut self, rep: &mut WorkerReport) -> bool {
        let ctl = hist::parse_addr(hist::CONTROLLER);
        let classes = tickers();
        let mut holders: Vec<(A, Option<String>)> = self.pks.iter().map(|p| (hist::pk_address(p), Some(p.clone()))).collect();
        holders.extend(self.signers.iter().map(|s| (s.addr, None)));
        holders.push((hist::parse_addr(&self.batcher), None));
        holders.push((hist::parse_addr(hist::INDEXER), None));
        holders.push((ctl, None));
        for c in &classes {
            let tok = self.ledger.tokens.get(&c.key).cloned();
            let taddr = self.eth_call_u256(&ctl, hist::abi_bytes_then_words("getTickerAddress(bytes)", &c.key, &[]));
            let exists_on_chain = taddr.map(|a| !a.is_zero()).unwrap_or(false);
            rep.evaluations += 1;
            if exists_on_chain != tok.is_some() {
                self.fail(rep, "token-existence", format!("ticker class {}: controller says token exists = {}, the ledger model says {}", c.name, exists_on_chain, tok.is_some()), json!({}));
                return false;
            }
            let mut sum = U256::ZERO;
            for (h, pk) in &holders {
                let want = tok.as_ref().map(|t| t.balance(h)).unwrap_or(U256::ZERO);
                sum = sum.saturating_add(want);
                if let Some(pk) = pk {
                    for (si, sp) in c.spellings.iter().enumerate() {
                        let pk = &match si % 3 {
                            1 => pk.to_uppercase(),
                            2 => pk.chars().enumerate().map(|(i, c)| if i % 2 == 1 { c.to_ascii_uppercase() } else { c }).collect::<String>(),
                            _ => pk.clone(),
                        };
                        let r = self.d.inst.call("brc20_balance", json!({"pkscript": pk, "ticker": sp}));
                        let got = r.ok().and_then(|v| v.as_str().and_then(|s| U256::from_str_radix(s.trim_start_matches("0x"), 16).ok()));
                        rep.evaluations += 1;
                        if got != Some(want) {
                            self.fail(rep, &format!("balance:{}", c.name), format!("brc20_balance(pkscript, {:?}{}) = {} but the ledger model says {}", sp.chars().take(48).collect::<String>(), if sp.chars().count() > 48 { format!("... {} bytes", sp.len()) } else { String::new() }, r.short(), want), json!({"pkscript": pk, "ticker_class": c.name}));
                            return false;
                        }
                    }
                }
                if exists_on_chain {
                    let ta: A = taddr.unwrap().to_be_bytes::<32>()[12..].try_into().unwrap();
                    self.token_addr.insert(c.key.clone(), ta);
                    let got = self.eth_call_u256(&ta, hist::abi_words("balanceOf(address)", &[asm::word_addr(h)]));
                    if got != Some(want) {
                        self.fail(rep, &format!("token-balance:{}", c.name), format!("token.balanceOf({}) = {:?} but the ledger model says {}", hist::addr_hex(h), got, want), json!({}));
                        return false;
                    }
                }
            }
            if let (true, Some(t)) = (exists_on_chain, &tok) {
                let ta = self.token_addr[&c.key];
                let ts = self.eth_call_u256(&ta, hist::abi_words("totalSupply()", &[]));
                let dep = self.ledger.deposited.get(&c.key).cloned().unwrap_or(U256::ZERO);
                let wd = self.ledger.withdrawn.get(&c.key).cloned().unwrap_or(U256::ZERO);
                if ts != Some(t.supply) || t.supply != sum || (dep >= wd && dep - wd != t.supply && dep != U256::MAX && wd != U256::MAX) {
                    self.fail(rep, &format!("supply:{}", c.name), format!("totalSupply = {:?}, model supply = {}, sum of holder balances = {}, deposits - withdrawals = {}", ts, t.supply, sum, dep.saturating_sub(wd)), json!({}));
                    return false;
                }
            }
        }
        true
    }
}

fn one_case(ctx: &WorkerCtx, rep: &mut WorkerReport, case_seed: u64) {
    let (net, _) = net_for_shard(ctx.shard);
    let mut rng = Rng::new(case_seed);
    let mut d = new_driver("C07");
    d.exec(Op::Init { hash: hist::ZERO_HASH.into(), ts: 1, height: 0 });
    // four holders with pkscripts of different shapes: taproot (34 bytes), p2wpkh (22), the
    // shortest accepted script (2) and a long bare script (81); the hex digits include letters so
    // that the spelling of the hex string (lower / upper / mixed case) is a real variation
    let pks: Vec<String> = vec![
        format!("5120{}", hex::encode([0xb0u8; 32])),
        format!("0014{}", hex::encode([0xcdu8; 20])),
        "6afe".to_string(),
        format!("4c4f{}", hex::encode((0..79u8).map(|i| i.wrapping_mul(37) ^ 0xab).collect::<Vec<u8>>())),
        // scripts of exactly 20 bytes look like EVM addresses but are scripts like any other: one spells
        // the indexer account (owner of the controller), one is arbitrary
        "0000000000000000000000000000000000003ca6".to_string(),
        hex::encode([0x5au8; 20]),
    ];
    let h = crate::hist::bh((0xc07u64) as u64);
    let r = d.exec(Op::Deploy { pk: pks[0].clone(), data: hist::hx(&asm::batcher_init()), enc: Enc::Hex, ctx: Ctx { ts: 2, hash: h.clone(), idx: 0 }, iid: format!("c07-batcher-{}", case_seed), len: 100_000, txid: hist::ZERO_HASH.into() });
    let Some(batcher) = hist::created_address(&r) else {
        rep.inconclusive("forwarder deployment failed");
        drop_driver(d);
        return;
    };
    d.exec(Op::Finalise { ts: 2, hash: h, count: 1 });
    let mut run = Run { d, ledger: Ledger::default(), snapshots: BTreeMap::new(), pks, signers: vec![Signer::new(11), Signer::new(12)], chain_id: rpc::chain_id_for(net), batcher, uniq: 0, ts: 100, ctx, case_seed, net, token_addr: BTreeMap::new() };
    run.snapshots.insert(run.d.height, run.ledger.clone());
    let ctl = hist::parse_addr(hist::CONTROLLER);
    let classes = tickers();
    let blocks = if ctx.thorough() { 40 } else { 25 };
    for _b in 0..blocks {
        run.ts += 5;
        run.uniq += 1;
        let blk = (run.ts, format!("0x{:016x}{:048x}", 0xc07c07c07c07c07cu64, (case_seed << 16 >> 16) ^ run.uniq));
        let nops = rng.range(1, 6);
        for _ in 0..nops {
            // every class takes part; plain ASCII most often
            let weights: Vec<u64> = classes.iter().map(|c| match c.name { "ascii" => 6, "non-ascii" => 3, "one-byte" | "ws-plain" | "ws-padded-right" | "final-sigma" => 2, _ => 1 }).collect();
            let c = &classes[rng.weighted(&weights)];
            let who = match rng.below(8) {
                0 | 1 | 2 | 3 => Who::Pk(rng.below(6) as usize),
                4 | 5 => Who::Signer(rng.below(2) as usize),
                _ => Who::Relay(rng.below(6) as usize),
            };
            let me = run.addr_of(&who);
            let other: A = match rng.below(6) {
                0 => ZERO,
                1 => me,
                2 => ctl,
                3 => run.signers[rng.below(2) as usize].addr,
                _ => hist::pk_address(&run.pks[rng.below(6) as usize]),
            };
            let third: A = hist::pk_address(&run.pks[rng.below(6) as usize]);
            let tok_bal = run.ledger.tokens.get(&c.key).map(|t| t.balance(&me)).unwrap_or(U256::ZERO);
            let v = match rng.below(8) {
                0 => tok_bal,
                1 if !tok_bal.is_zero() => tok_bal - U256::from(1u64),
                2 => tok_bal.saturating_add(U256::from(1u64)),
                3 | 4 | 5 if !tok_bal.is_zero() => U256::from(rng.range(1, 40)).min(tok_bal),
                _ => amount(&mut rng),
            };
            let mut depends = false;
            let kind: &str;
            let predicted: bool;
            let got: Option<bool>;
            match rng.weighted(&[12, 7, 7, 6, 5, 4, 3, 3, 6, 2]) {
                0 => {
                    kind = "deposit";
                    let pk = rng.below(6) as usize;
                    let sp = *rng.pick(&c.spellings);
                    let amt = if rng.chance(1, 8) { v } else { U256::from(rng.range(1, 5000)) };
                    let mut l = run.ledger.clone();
                    predicted = l.mint(&c.key, &hist::pk_address(&run.pks[pk]), amt);
                    if predicted {
                        run.ledger = l;
                    }
                    run.uniq += 1;
                    let r = run.d.exec(Op::Deposit { pk: spell_pk(&mut rng, &run.pks[pk]), ticker: sp.to_string(), amount: format!("0x{:x}", amt), ctx: Ctx { ts: blk.0, hash: blk.1.clone(), idx: run.d.ntx }, iid: format!("c07-{}-{}i0", case_seed % 100000, run.uniq) });
                    got = hist::receipts_in(&r).first().map(|x| x["status"].as_str() == Some("0x1"));
                }
                1 => {
                    kind = "withdraw";
                    let pk = rng.below(6) as usize;
                    let a = hist::pk_address(&run.pks[pk]);
                    let bal = run.ledger.tokens.get(&c.key).map(|t| t.balance(&a)).unwrap_or(U256::ZERO);
                    let amt = match rng.below(4) {
                        0 => bal,
                        1 => bal.saturating_add(U256::from(1u64)),
                        2 if !bal.is_zero() => U256::from(rng.range(1, 50)).min(bal),
                        _ => amount(&mut rng),
                    };
                    depends = !bal.is_zero();
                    let sp = *rng.pick(&c.spellings);
                    let mut l = run.ledger.clone();
                    predicted = l.burn(&c.key, &a, amt);
                    if predicted {
                        run.ledger = l;
                    }
                    run.uniq += 1;
                    let r = run.d.exec(Op::Withdraw { pk: spell_pk(&mut rng, &run.pks[pk]), ticker: sp.to_string(), amount: format!("0x{:x}", amt), ctx: Ctx { ts: blk.0, hash: blk.1.clone(), idx: run.d.ntx }, iid: format!("c07-{}-{}i0", case_seed % 100000, run.uniq) });
                    got = hist::receipts_in(&r).first().map(|x| x["status"].as_str() == Some("0x1"));
                }
                2 => {
                    kind = "controller.transfer";
                    depends = !tok_bal.is_zero();
                    let mut l = run.ledger.clone();
                    predicted = match l.tokens.get_mut(&c.key) {
                        Some(t) => t.spend_allowance(&me, &ctl, v) && t.transfer(&me, &other, v),
                        None => false,
                    };
                    if predicted {
                        run.ledger = l;
                    }
                    got = run.send(&who, &ctl, hist::abi_bytes_then_words("transfer(bytes,address,uint256)", &c.key, &[asm::word_addr(&other), u256_word(v)]), &blk);
                }
                3 => {
                    kind = "controller.approve";
                    // the controller itself is the spender that controller.transfer needs
                    let other = if rng.chance(1, 2) { ctl } else { other };
                    let val = if rng.chance(1, 3) { U256::MAX } else if rng.chance(1, 2) { U256::from(rng.range(1, 5000)) } else { v };
                    predicted = match run.ledger.tokens.get_mut(&c.key) {
                        Some(t) => {
                            if me == ZERO || other == ZERO {
                                false
                            } else {
                                t.allow.insert((me, other), val);
                                true
                            }
                        }
                        None => false,
                    };
                    got = run.send(&who, &ctl, hist::abi_bytes_then_words("approve(bytes,address,uint256)", &c.key, &[asm::word_addr(&other), u256_word(val)]), &blk);
                }
                4 => {
                    kind = "controller.transferFrom";
                    // spender = me, from = other, to = third
                    let mut l = run.ledger.clone();
                    depends = l.tokens.get(&c.key).map(|t| !t.balance(&other).is_zero() || !t.allowance(&other, &me).is_zero()).unwrap_or(false);
                    predicted = match l.tokens.get_mut(&c.key) {
                        Some(t) => t.spend_allowance(&other, &me, v) && t.transfer(&other, &third, v),
                        None => false,
                    };
                    if predicted {
                        run.ledger = l;
                    }
                    got = run.send(&who, &ctl, hist::abi_bytes_then_words("transferFrom(bytes,address,address,uint256)", &c.key, &[asm::word_addr(&other), asm::word_addr(&third), u256_word(v)]), &blk);
                }
                5 => {
                    kind = "token.transfer";
                    let Some(ta) = run.token_addr.get(&c.key).cloned().filter(|_| run.ledger.tokens.contains_key(&c.key)) else { continue };
                    depends = !tok_bal.is_zero();
                    let mut l = run.ledger.clone();
                    predicted = l.tokens.get_mut(&c.key).map(|t| t.transfer(&me, &other, v)).unwrap_or(false);
                    if predicted {
                        run.ledger = l;
                    }
                    got = run.send(&who, &ta, hist::abi_words("transfer(address,uint256)", &[asm::word_addr(&other), u256_word(v)]), &blk);
                }
                6 => {
                    kind = "token.approve";
                    let Some(ta) = run.token_addr.get(&c.key).cloned().filter(|_| run.ledger.tokens.contains_key(&c.key)) else { continue };
                    predicted = if me == ZERO || other == ZERO {
                        false
                    } else {
                        run.ledger.tokens.get_mut(&c.key).map(|t| {
                            t.allow.insert((me, other), v);
                            true
                        }).unwrap_or(false)
                    };
                    got = run.send(&who, &ta, hist::abi_words("approve(address,uint256)", &[asm::word_addr(&other), u256_word(v)]), &blk);
                }
                7 => {
                    kind = "token.transferFrom";
                    let Some(ta) = run.token_addr.get(&c.key).cloned().filter(|_| run.ledger.tokens.contains_key(&c.key)) else { continue };
                    let mut l = run.ledger.clone();
                    depends = l.tokens.get(&c.key).map(|t| !t.balance(&other).is_zero()).unwrap_or(false);
                    predicted = l.tokens.get_mut(&c.key).map(|t| t.spend_allowance(&other, &me, v) && t.transfer(&other, &third, v)).unwrap_or(false);
                    if predicted {
                        run.ledger = l;
                    }
                    got = run.send(&who, &ta, hist::abi_words("transferFrom(address,address,uint256)", &[asm::word_addr(&other), asm::word_addr(&third), u256_word(v)]), &blk);
                }
                8 => {
                    // adversarial: must all fail and change nothing
                    kind = "adversarial";
                    predicted = false;
                    depends = true;
                    let ta = run.token_addr.get(&c.key).cloned().filter(|_| run.ledger.tokens.contains_key(&c.key));
                    let (to, data) = match rng.below(9) {
                        0 => (ctl, hist::abi_bytes_then_words("mint(bytes,address,uint256)", &c.key, &[asm::word_addr(&me), u256_word(U256::from(1000u64))])),
                        1 => (ctl, hist::abi_bytes_then_words("burn(bytes,address,uint256)", &c.key, &[asm::word_addr(&third), u256_word(U256::from(1u64))])),
                        2 => (ctl, hist::abi_words("transferOwnership(address)", &[asm::word_addr(&me)])),
                        3 => (ctl, hist::abi_words("renounceOwnership()", &[])),
                        4 => (ta.unwrap_or(ctl), hist::abi_words("mint(address,uint256)", &[asm::word_addr(&me), u256_word(U256::from(1000u64))])),
                        5 => (ta.unwrap_or(ctl), hist::abi_words("burn(address,uint256)", &[asm::word_addr(&third), u256_word(U256::from(1u64))])),
                        6 => (ta.unwrap_or(ctl), hist::abi_words("transferOwnership(address)", &[asm::word_addr(&me)])),
                        7 => (ta.unwrap_or(ctl), hist::abi_words("transferFrom(address,address,address,uint256)", &[asm::word_addr(&me), asm::word_addr(&third), asm::word_addr(&me), u256_word(U256::from(1u64))])),
                        _ => (ta.unwrap_or(ctl), hist::abi_words("approve(address,address,uint256)", &[asm::word_addr(&third), asm::word_addr(&me), u256_word(U256::MAX)])),
                    };
                    if to == ctl && ta.is_none() && false {
                        continue;
                    }
                    // calling a token-only function on the controller fails as well (no such selector)
                    got = run.send(&who, &to, data, &blk);
                }
                _ => {
                    // eth_call as the indexer address: may simulate success, must change nothing
                    kind = "eth_call-as-indexer";
                    let data = hist::abi_bytes_then_words("mint(bytes,address,uint256)", &c.key, &[asm::word_addr(&me), u256_word(U256::from(777u64))]);
                    // executing queries are only possible at block boundaries; mid-block they wait and fail
                    if run.d.ntx == 0 {
                        let r = run.d.inst.call("eth_call", json!([{"from": hist::INDEXER, "to": hist::CONTROLLER, "data": hist::hx(&data)}]));
                        rep.count("eth_call_as_indexer", 1);
                        rep.count(if r.is_ok() { "eth_call_as_indexer_simulated_success" } else { "eth_call_as_indexer_failed" }, 1);
                    }
                    continue;
                }
            }
            rep.evaluations += 1;
            let Some(got) = got else {
                run.fail(rep, &format!("no-receipt:{}", kind), format!("{} returned no receipt", kind), json!({}));
                drop_driver(run.d);
                return;
            };
            if got != predicted {
                run.fail(rep, &format!("outcome:{}:{}", kind, if predicted { "should-succeed" } else { "should-fail" }),
                    format!("{} on ticker class {} {} but the ledger model predicts {}", kind, c.name, if got { "succeeded" } else { "failed" }, if predicted { "success" } else { "failure" }),
                    json!({"kind": kind, "ticker_class": c.name, "amount": format!("{}", v)}));
                drop_driver(run.d);
                return;
            }
            if depends {
                rep.nontrivial(format!("{}:{}:{}", kind, predicted, c.name));
            }
            rep.count(&format!("op:{}:{}", kind, predicted), 1);
        }
        let cnt = run.d.ntx;
        let (fts, fh) = run.d.open.clone().unwrap_or(blk.clone());
        run.d.exec(Op::Finalise { ts: fts, hash: fh, count: cnt });
        run.snapshots.insert(run.d.height, run.ledger.clone());
        if !run.audit(rep) {
            drop_driver(run.d);
            return;
        }
        if rng.chance(1, 5) {
            run.d.exec(Op::Commit);
        }
        if rng.chance(1, 8) && run.d.height > 3 {
            let n = (run.d.height - rng.range(1, 3) as i64).max(1);
            if run.d.exec(Op::Reorg { n: n as u64 }).is_ok() {
                if let Some(l) = run.snapshots.get(&n) {
                    run.ledger = l.clone();
                }
                run.snapshots.retain(|k, _| *k <= n);
                // token addresses are nonce-derived: after a rollback another ticker may get the same address
                run.token_addr.clear();
                rep.count("reorgs", 1);
                if !run.audit(rep) {
                    drop_driver(run.d);
                    return;
                }
            }
        }
    }
    if rep.samples.len() < 2 {
        let bal: Vec<String> = run.ledger.tokens.iter().map(|(k, t)| format!("{}: supply {} holders {}", String::from_utf8_lossy(k), t.supply, t.bal.values().filter(|v| !v.is_zero()).count())).collect();
        rep.sample(json!({"case_seed": case_seed, "network": net, "blocks": run.d.height + 1, "final_ledger": bal, "last_calls": log_json(&run.d.log, 3)}));
    }
    drop_driver(run.d);
}

pub fn worker(ctx: &WorkerCtx) -> WorkerReport {
    let (net, traces) = net_for_shard(ctx.shard);
    crate::setup_env(net, traces);
    let mut rep = WorkerReport::default();
    let mut rng = ctx.rng();
    for _ in 0..(if ctx.thorough() { 10 } else { 2 }) {
        let cs = rng.next();
        one_case(ctx, &mut rep, cs);
    }
    rep
}
