//! C10 — read-only methods never change state.

use std::collections::BTreeMap;
use std::path::Path;
use std::sync::atomic::{AtomicBool, AtomicU64, Ordering};
use std::sync::{Arc, Mutex};

use brc20_prog::verif::{BlockResponseED, Decode, Encode};
use serde_json::{json, Value};

use super::common::*;
use crate::asm;
use crate::fakebtc;
use crate::hist::{self, Ctx, Driver, Enc, Op, Target, World};
use crate::obs::{self, ObsMode};
use crate::pre;
use crate::report::{Spec, WorkerReport};
use crate::rng::Rng;
use crate::rpc::{self, Resp};
use crate::WorkerCtx;

pub fn spec() -> Spec {
    Spec {
        prop: "C10",
        level: "exploration",
        rule: "Twin with/without reads: instance A gets a generated history with read bursts at every block boundary (eth_call, eth_callMany with 2-5 calls and state carry-over, eth_estimateGas(Many), brc20_balance, all eth_get*/debug_*/txpool_*/brc20_get*; simulated code does SSTORE, CREATE/CREATE2, LOG, SELFDESTRUCT, REVERT, INVALID, out-of-gas, precompile calls with Bitcoin-transaction overrides, and the multi-call error path) and non-executing reads mid-block; instance B gets the same history without them. Compared: every indexer response, Obs immediately before/after each burst, Obs of A vs B at the end, and after the final commit and close every RocksDB table (db and *_cache, plus global) of both directories key by key (block rows with mineTimestamp zeroed). The failpoint observer must see no persistent write during a read. Simulations carry every kind of block parameter (tags, existing heights, heights up to 300 beyond the tip) and half of those run code reading BLOCKHASH / NUMBER around the simulated height. At the end the indexer calls are also replayed in a fresh child process and compared (state leaking through process-wide memory is invisible to a twin in the same process). Non-trivial = read whose simulated execution succeeded on a state-changing code path; distinct by (method, simulated op).",
        assumptions: vec!["RocksDB write order differs between twins (HashMap walks) and is irrelevant: contents are compared, not files".into()],
        exhaustive: false,
        min_nontrivial: 2,
    }
}

static IN_READ: AtomicBool = AtomicBool::new(false);
static WRITES_DURING_READ: AtomicU64 = AtomicU64::new(0);

fn install_observer(log: Arc<Mutex<Vec<String>>>) {
    brc20_prog::verif::set_write_observer(Some(Arc::new(move |e: &brc20_prog::verif::WriteEvent<'_>| {
        if IN_READ.load(Ordering::SeqCst) {
            WRITES_DURING_READ.fetch_add(1, Ordering::SeqCst);
            if let Ok(mut g) = log.lock() {
                if g.len() < 20 {
                    g.push(format!("{} {} {} {}", e.site, e.db_path.display(), e.op, hex::encode(&e.key[..e.key.len().min(16)])));
                }
            }
        }
    })));
}

fn call_obj(from: Option<&str>, to: Option<&str>, data: &[u8]) -> Value {
    let mut o = serde_json::Map::new();
    if let Some(f) = from {
        o.insert("from".into(), json!(f));
    }
    if let Some(t) = to {
        o.insert("to".into(), json!(t));
    }
    o.insert("data".into(), json!(hist::hx(data)));
    Value::Object(o)
}

/// One burst of reads; returns list of (method, simulated op, ok?).
fn read_burst(rng: &mut Rng, d: &mut Driver, w: &mut World, rep: &mut WorkerReport, mid_block: bool) {
    let tools = w.tools.clone();
    let pk_addr = hist::addr_hex(&hist::pk_address(&w.pks[0]));
    let latest = d.height.max(0) as u64;
    // non-executing reads
    for _ in 0..rng.range(3, 8) {
        let h = rng.range(0, latest + 1);
        let hx = format!("0x{:x}", h);
        let (m, p): (&str, Value) = match rng.below(12) {
            0 => ("eth_getBlockByNumber", json!([hx, true])),
            1 => ("eth_getLogs", json!([{"fromBlock": hx, "toBlock": hx}])),
            2 => ("debug_getRawBlock", json!([hx])),
            3 => ("debug_getBlockTraceHash", json!([hx])),
            4 => ("txpool_content", json!([])),
            5 => ("eth_getTransactionByBlockNumberAndIndex", json!([h, 0])),
            6 => ("eth_getCode", json!([tools.first().cloned().unwrap_or(hist::CONTROLLER.into())])),
            7 => ("eth_getStorageAt", json!([tools.first().cloned().unwrap_or(hist::CONTROLLER.into()), "0x1"])),
            8 => ("eth_getTransactionCount", json!([pk_addr, "latest"])),
            9 => ("brc20_getInscriptionIdByContractAddress", json!([hist::CONTROLLER])),
            10 => ("eth_blockNumber", json!([])),
            _ => ("debug_getRawReceipts", json!([hx])),
        };
        let r = d.inst.call(m, p);
        rep.evaluations += 1;
        rep.count(&format!("read:{}", m), 1);
        if let Resp::Panic(msg) = r {
            rep.notes.push(format!("read {} panicked: {}", m, msg));
        }
    }
    if mid_block {
        return;
    }
    // executing reads
    let Some(tool) = tools.first().cloned() else { return };
    let t20 = hist::parse_addr(&tool);
    let chain = fakebtc::chain();
    let sims: Vec<(&str, Vec<u8>)> = vec![
        ("sstore", asm::tool_call(asm::OP_SSTORE, &[asm::word_u64(1), asm::word_u64(0xBAD0 + rng.below(100))], &[])),
        ("inc", asm::tool_call(asm::OP_INC, &[asm::word_u64(2)], &[])),
        ("log", asm::tool_call(asm::OP_LOGS, &[asm::word_u64(3), asm::word_u64(1), asm::word_u64(2)], &[])),
        ("create", asm::tool_call(asm::OP_CREATE, &[], &asm::tool_init_with_ctor())),
        ("create2", asm::tool_call(asm::OP_CREATE2, &[asm::word_u64(rng.next())], &asm::tool_init())),
        ("selfdestruct", asm::tool_call(asm::OP_SELFDESTRUCT, &[asm::word_u64(0xdead)], &[])),
        ("revert", asm::tool_call(asm::OP_REVERT, &[asm::word_u64(5)], &[])),
        ("invalid", asm::tool_call(asm::OP_INVALID, &[], &[])),
        ("oog", asm::tool_call(asm::OP_BURN, &[asm::word_u64(u64::MAX)], &[])),
        ("nested-sstore", asm::tool_call(asm::OP_CALL, &[asm::word_addr(&t20)], &asm::tool_call(asm::OP_SSTORE, &[asm::word_u64(3), asm::word_u64(0xBEEF)], &[]))),
        ("precompile-locked", asm::tool_call(asm::OP_CALL, &[asm::word_u64(pre::PC_LOCKED)], &pre::get_locked_pkscript(&hex::decode("5120e0e224cd541454519b62047aa0891ea7b81a16598556aeb83a412a0b06a20aab").unwrap(), asm::word_u64(6)))),
        ("precompile-txdetails", asm::tool_call(asm::OP_CALL, &[asm::word_u64(pre::PC_TXDETAILS)], &pre::get_tx_details(&chain.txs[1].txid_b32))),
        ("probe", asm::tool_call(asm::OP_PROBE, &[asm::word_u64(0x7000), asm::word_u64(1), asm::word_u64(0)], &[])),
    ];
    let state_changing = ["sstore", "inc", "log", "create", "create2", "selfdestruct", "nested-sstore", "probe"];
    for _ in 0..rng.range(2, 5) {
        let (name, data) = rng.pick(&sims).clone();
        let from = match rng.below(4) {
            0 => None,
            1 => Some(hist::INDEXER.to_string()),
            2 => Some(tool.clone()), // a sender that has code: validation error path
            _ => Some(pk_addr.clone()),
        };
        // the optional block parameter: tags, existing heights and heights the chain has not reached
        let latest = d.height.max(0) as u64;
        let block_param: Option<Value> = match rng.below(10) {
            0 => Some(json!("latest")),
            1 => Some(json!("pending")),
            2 => Some(json!("earliest")),
            3 => Some(json!(format!("0x{:x}", latest))),
            4 => Some(json!(format!("0x{:x}", latest + 1))),
            5 => Some(json!(format!("0x{:x}", latest + 2))),
            6 => Some(json!(format!("0x{:x}", latest + 2 + rng.below(300)))),
            7 => Some(json!(format!("0x{:x}", rng.below(latest + 1)))),
            // heights around the rule-change heights of signet and main net, and far beyond: a simulation
            // "as of" a height with other rules must not leave anything behind
            8 => Some(json!(format!("0x{:x}", *rng.pick(&[274_999u64, 275_000, 275_001, 923_368, 923_369, 929_000, 5_000_000, u64::MAX])))),
            _ => None,
        };
        let with_block = |mut params: Vec<Value>| -> Value {
            if let Some(b) = &block_param {
                params.push(b.clone());
            }
            Value::Array(params)
        };
        match rng.below(5) {
            0 | 1 => {
                // code that looks at the chain around the simulated height (BLOCKHASH, NUMBER) half of the time
                let data = if block_param.is_some() && rng.chance(1, 2) { asm::tool_call(asm::OP_PROBE, &[asm::word_u64(0x7100), asm::word_u64(rng.range(1, 3)), asm::word_u64(latest + 1)], &[]) } else { data.clone() };
                let r = d.inst.call("eth_call", with_block(vec![call_obj(from.as_deref(), Some(&tool), &data)]));
                rep.evaluations += 1;
                rep.count("read:eth_call", 1);
                if r.is_ok() && state_changing.contains(&name) {
                    rep.nontrivial(format!("eth_call:{}", name));
                }
            }
            2 => {
                // multi-call with carry-over: create a child, then write, then read back, plus the chosen sim
                let init = asm::tool_call(asm::OP_CREATE, &[], &asm::tool_init());
                let calls = vec![
                    call_obj(Some(&pk_addr), Some(&tool), &init),
                    call_obj(Some(&pk_addr), Some(&tool), &asm::tool_call(asm::OP_SSTORE, &[asm::word_u64(4), asm::word_u64(0x4444)], &[])),
                    call_obj(Some(&pk_addr), Some(&tool), &asm::tool_call(asm::OP_SLOAD, &[asm::word_u64(4)], &[])),
                    call_obj(from.as_deref(), Some(&tool), &data),
                    call_obj(Some(&pk_addr), None, &asm::tool_init()),
                ];
                let n = rng.range(2, 5) as usize;
                let overrides = match rng.below(4) {
                    0 | 1 => json!({"opReturnTxIds": [hist::ZERO_HASH.replace("00", "ab")], "bitcoinTxHexes": {format!("0x{}", chain.txs[3].txid_hex): hist::hx(&chain.txs[3].raw)}}),
                    2 => {
                        // a doctored parent: the override for txs[1] (parent of txs[2]'s inputs) pays other amounts
                        let mut p = chain.txs[1].tx.clone();
                        for o in p.output.iter_mut() {
                            o.value = bitcoin::Amount::from_sat(o.value.to_sat() + 1 + rng.below(1000));
                        }
                        json!({"opReturnTxIds": [], "bitcoinTxHexes": {format!("0x{}", chain.txs[1].txid_hex): hist::hx(&bitcoin::consensus::encode::serialize(&p)), format!("0x{}", chain.txs[2].txid_hex): hist::hx(&chain.txs[2].raw)}})
                    }
                    _ => Value::Null,
                };
                let mut calls = calls;
                if overrides.get("opReturnTxIds").map(|x| x.as_array().map(|a| a.is_empty()).unwrap_or(false)).unwrap_or(false) {
                    // ... and a call that looks that parent up
                    calls.insert(0, call_obj(Some(&pk_addr), Some(&tool), &asm::tool_call(asm::OP_CALL, &[asm::word_u64(pre::PC_TXDETAILS)], &pre::get_tx_details(&chain.txs[2].txid_b32))));
                }
                let r = d.inst.call("eth_callMany", json!([calls[..n].to_vec(), block_param.clone().unwrap_or(Value::Null), overrides]));
                rep.evaluations += 1;
                rep.count("read:eth_callMany", 1);
                if let Resp::Ok(Value::Array(a)) = &r {
                    // carry-over visible inside the simulation: sload(4) returns what the previous call wrote
                    if n >= 3 && a.get(2).and_then(|x| x.as_str()).map(|s| s.ends_with("4444")).unwrap_or(false) {
                        rep.nontrivial("eth_callMany:carry-over".to_string());
                    }
                    rep.nontrivial(format!("eth_callMany:{}", if n >= 4 { name } else { "create+sstore" }));
                } else {
                    rep.count("read:eth_callMany:error-path", 1);
                }
            }
            3 => {
                let data = if block_param.is_some() && rng.chance(1, 2) { asm::tool_call(asm::OP_PROBE, &[asm::word_u64(0x7200), asm::word_u64(rng.range(1, 3)), asm::word_u64(latest + 1)], &[]) } else { data.clone() };
                let r = d.inst.call("eth_estimateGas", with_block(vec![call_obj(from.as_deref(), Some(&tool), &data)]));
                rep.evaluations += 1;
                rep.count("read:eth_estimateGas", 1);
                if r.is_ok() && state_changing.contains(&name) {
                    rep.nontrivial(format!("eth_estimateGas:{}", name));
                }
            }
            _ => {
                let calls = vec![call_obj(Some(&pk_addr), Some(&tool), &asm::tool_call(asm::OP_INC, &[asm::word_u64(6)], &[])), call_obj(from.as_deref(), Some(&tool), &data)];
                let r = d.inst.call("eth_estimateGasMany", json!([calls]));
                rep.evaluations += 1;
                rep.count("read:eth_estimateGasMany", 1);
                if r.is_ok() {
                    rep.nontrivial(format!("eth_estimateGasMany:{}", name));
                }
            }
        }
    }
    let r = d.inst.call("brc20_balance", json!({"pkscript": w.pks[0], "ticker": "ordi"}));
    rep.evaluations += 1;
    rep.count("read:brc20_balance", 1);
    let _ = r;
}

const TABLES: [&str; 15] = [
    "account_memory", "code", "account", "number_and_index_to_tx_hash", "tx_receipt", "inscription_id_to_tx_hash",
    "contract_address_to_inscription_id", "tx", "account_and_nonce_to_tx_hash", "pending_tx_hash_to_tx_id", "tx_trace",
    "block_hash_to_number", "block_number_to_block", "block_number_to_raw_block", "block_number_to_hash",
];

pub fn dump_db(path: &Path) -> Result<BTreeMap<Vec<u8>, Vec<u8>>, String> {
    let opts = rocksdb::Options::default();
    let db = rocksdb::DB::open_for_read_only(&opts, path, false).map_err(|e| e.to_string())?;
    let mut m = BTreeMap::new();
    for kv in db.iterator(rocksdb::IteratorMode::Start) {
        let (k, v) = kv.map_err(|e| e.to_string())?;
        m.insert(k.to_vec(), v.to_vec());
    }
    Ok(m)
}

pub fn all_db_dirs() -> Vec<String> {
    let mut v = Vec::new();
    for t in TABLES {
        v.push(t.to_string());
        if !t.starts_with("block_number_to") {
            v.push(format!("{}_cache", t));
        }
    }
    v.push("global".into());
    v
}

fn normalise(table: &str, v: &[u8]) -> Vec<u8> {
    if table == "block_number_to_block" {
        if let Ok((mut b, _)) = BlockResponseED::decode(v, 0) {
            b.mine_timestamp = 0u64.into();
            return b.encode_vec();
        }
    }
    v.to_vec()
}

/// Compare two closed database directories table by table. Returns description of first differences.
pub fn disk_diff(a: &Path, b: &Path) -> Result<(u64, Vec<String>), String> {
    let mut diffs = Vec::new();
    let mut rows = 0u64;
    for t in all_db_dirs() {
        let (ma, mb) = (dump_db(&a.join(&t))?, dump_db(&b.join(&t))?);
        rows += ma.len() as u64;
        let keys: std::collections::BTreeSet<&Vec<u8>> = ma.keys().chain(mb.keys()).collect();
        for k in keys {
            let va = ma.get(k).map(|v| normalise(&t, v));
            let vb = mb.get(k).map(|v| normalise(&t, v));
            if va != vb {
                diffs.push(format!("{}: key {} a={} b={}", t, hex::encode(&k[..k.len().min(40)]), va.map(|v| hex::encode(&v[..v.len().min(48)])).unwrap_or("<absent>".into()), vb.map(|v| hex::encode(&v[..v.len().min(48)])).unwrap_or("<absent>".into())));
                if diffs.len() >= 12 {
                    return Ok((rows, diffs));
                }
            }
        }
    }
    Ok((rows, diffs))
}

fn one_case(ctx: &WorkerCtx, rep: &mut WorkerReport, case_seed: u64, blocks: u64, wlog: &Arc<Mutex<Vec<String>>>) {
    let (net, _) = net_for_shard(ctx.shard);
    let mut rng = Rng::new(case_seed);
    let mut w = World::new(case_seed, rpc::chain_id_for(net));
    let scale = scale_world(&mut w, case_seed, true, false);
    rep.set_add("scale_profiles", scale);
    w.profile.p_empty_block = 12;
    let mut a = new_driver("C10");
    for b in 0..blocks {
        // mid-block non-executing reads
        if a.height >= 0 && rng.chance(1, 3) {
            let blk = w.block_ctx(&a);
            w.gen_tx(&mut a, &blk);
            IN_READ.store(true, Ordering::SeqCst);
            read_burst(&mut rng, &mut a, &mut w, rep, true);
            IN_READ.store(false, Ordering::SeqCst);
            let blk = a.open.clone().unwrap_or(blk);
            let cnt = a.ntx;
            a.exec(Op::Finalise { ts: blk.0, hash: blk.1, count: cnt });
        } else {
            w.gen_block(&mut a);
        }
        if rng.chance(1, 4) {
            a.exec(Op::Commit);
        }
        // burst at the boundary, with Obs before and after
        let mut u = universe(&[&a.log], a.height.max(0) as u64, Some(&w));
        u.max_height = a.height.max(0) as u64;
        let before = if b % 3 == 0 { Some(obs::observe(&mut a.inst, &u, ObsMode::Boundary)) } else { None };
        IN_READ.store(true, Ordering::SeqCst);
        read_burst(&mut rng, &mut a, &mut w, rep, false);
        IN_READ.store(false, Ordering::SeqCst);
        if let Some(before) = before {
            let after = obs::observe(&mut a.inst, &u, ObsMode::Boundary);
            let d = before.diff(&after);
            if !d.is_empty() {
                violation(rep, "C10", ctx.seed, &format!("read-changed-obs:{}", obs_diff_sig(&d)), format!("a burst of read requests changed the answers of {} queries", d.len()), json!({"case_seed": case_seed, "network": net, "differences(before vs after)": obs::diff_summary(&d, 10)}));
                drop_driver(a);
                return;
            }
        }
        // an executed transaction right after the reads that needs what the reads may have touched
        // (the parents of a Bitcoin transaction's inputs, looked up from the node)
        if a.ntx == 0 && !w.tools.is_empty() && rng.chance(1, 2) {
            let chain = fakebtc::chain();
            let blk = w.block_ctx(&a);
            let data = asm::tool_call(asm::OP_CALL, &[asm::word_u64(pre::PC_TXDETAILS)], &pre::get_tx_details(&chain.txs[2].txid_b32));
            a.exec(Op::Call { pk: w.pks[0].clone(), target: Target::Addr(w.tools[0].clone()), data: Some(hist::hx(&data)), enc: Enc::Hex, ctx: Ctx { ts: blk.0, hash: blk.1.clone(), idx: 0 }, iid: w.iid(), len: 1_000_000, txid: w.txid() });
            let n = a.ntx;
            a.exec(Op::Finalise { ts: blk.0, hash: blk.1, count: n });
        }
        let wr = WRITES_DURING_READ.swap(0, Ordering::SeqCst);
        if wr > 0 {
            let l = wlog.lock().map(|g| g.clone()).unwrap_or_default();
            violation(rep, "C10", ctx.seed, "persistent-write-during-read", format!("{} persistent writes were issued while serving read requests", wr), json!({"case_seed": case_seed, "writes": l}));
            drop_driver(a);
            return;
        }
    }
    // twin without reads
    let mut bdrv = new_driver("C10");
    for (op, ra) in a.log.clone().iter() {
        let rb = bdrv.exec(op.clone());
        if !same(ra, &rb) {
            violation(rep, "C10", ctx.seed, &format!("indexer-response-differs:{}", op.kind()), "the same indexer call is answered differently when read requests were interleaved before it".into(), json!({"case_seed": case_seed, "network": net, "op": op, "with_reads": ra.short(), "without_reads": rb.short()}));
            drop_driver(a);
            drop_driver(bdrv);
            return;
        }
    }
    let mut u = universe(&[&a.log], a.height.max(0) as u64, Some(&w));
    u.max_height = a.height.max(0) as u64;
    let (oa, ob) = observe_pair(&mut a.inst, &mut bdrv.inst, &u, ObsMode::Boundary);
    let d = oa.diff(&ob);
    if !d.is_empty() {
        violation(rep, "C10", ctx.seed, &format!("twin-obs-differs:{}", obs_diff_sig(&d)), format!("the instance that served reads differs from the one that did not in {} queries", d.len()), json!({"case_seed": case_seed, "network": net, "differences(with vs without reads)": obs::diff_summary(&d, 10)}));
        drop_driver(a);
        drop_driver(bdrv);
        return;
    }
    // a twin in another process: state that leaks through process-wide memory (a memo filled while
    // serving a read) is shared by the two instances above, but not by this one
    {
        let ops: Vec<Op> = a.log.iter().map(|(o, _)| o.clone()).collect();
        match super::c02::replay_in_child(ctx, &ops, &u, net) {
            Some(child) => {
                rep.evaluations += 1;
                for (i, ((op, ra), rc)) in a.log.iter().zip(child.transcript.iter()).enumerate() {
                    if crate::report::canon_string(&obs::canon_resp(ra)) != crate::report::canon_string(rc) {
                        violation(rep, "C10", ctx.seed, &format!("indexer-response-differs-from-other-process:{}", op.kind()), "an indexer call is answered differently by the instance that served reads than by a fresh process that replays only the indexer calls".into(),
                            json!({"case_seed": case_seed, "network": net, "op_index": i, "op": op, "with_reads": ra.short(), "other_process": rc}));
                        drop_driver(a);
                        drop_driver(bdrv);
                        return;
                    }
                }
                if let Some(last) = child.obs.last() {
                    let diffs: Vec<&String> = oa.entries.iter().filter(|(k, v)| last.get(*k).map(|x| crate::report::canon_string(x) != crate::report::canon_string(v)).unwrap_or(false)).map(|(k, _)| k).collect();
                    if !diffs.is_empty() {
                        let methods: std::collections::BTreeSet<&str> = diffs.iter().map(|k| k.split(' ').next().unwrap_or("")).collect();
                        violation(rep, "C10", ctx.seed, &format!("other-process-obs-differs:{}", methods.iter().cloned().collect::<Vec<_>>().join("+")), format!("the instance that served reads answers {} queries differently from a fresh process fed only the indexer calls", diffs.len()),
                            json!({"case_seed": case_seed, "network": net, "some_queries": diffs.iter().take(6).collect::<Vec<_>>()}));
                        drop_driver(a);
                        drop_driver(bdrv);
                        return;
                    }
                    rep.nontrivial("other-process-twin".to_string());
                }
            }
            None => rep.inconclusive("the twin process produced no result"),
        }
    }
    // final commit, close, compare the database contents
    if a.ntx == 0 {
        a.exec(Op::Commit);
        bdrv.exec(Op::Commit);
    }
    let (da, db) = (a.inst.dir.clone(), bdrv.inst.dir.clone());
    a.inst.close();
    bdrv.inst.close();
    match disk_diff(&da, &db) {
        Ok((rows, diffs)) => {
            rep.count("disk_rows_compared", rows);
            rep.evaluations += 1;
            if !diffs.is_empty() {
                violation(rep, "C10", ctx.seed, "disk-contents-differ", format!("after commit the database of the instance that served reads differs from its twin's in {}+ rows", diffs.len()), json!({"case_seed": case_seed, "network": net, "rows": diffs}));
            }
        }
        Err(e) => rep.inconclusive(format!("could not read back the databases: {}", e)),
    }
    if rep.samples.len() < 2 {
        rep.sample(json!({"case_seed": case_seed, "network": net, "blocks": a.height + 1, "indexer_calls": a.log.len(), "obs_entries": oa.len()}));
    }
    drop_driver(a);
    drop_driver(bdrv);
}

pub fn worker(ctx: &WorkerCtx) -> WorkerReport {
    let (net, traces) = net_for_shard(ctx.shard);
    crate::setup_env(net, traces);
    let wlog = Arc::new(Mutex::new(Vec::new()));
    install_observer(wlog.clone());
    let mut rep = WorkerReport::default();
    let mut rng = ctx.rng();
    let (cases, blocks) = if ctx.thorough() { (6, 14) } else { (1, 10) };
    for _ in 0..cases {
        let cs = rng.next();
        one_case(ctx, &mut rep, cs, blocks, &wlog);
    }
    rep
}
