//! C18 — eth_getLogs returns exactly the matching logs, in chain order.

use serde_json::{json, Value};

use super::common::*;
use crate::asm;
use crate::hist::{self, Ctx, Driver, Enc, Op, Target};
use crate::report::{Spec, WorkerReport};
use crate::rng::Rng;
use crate::rpc::Resp;
use crate::WorkerCtx;

pub fn spec() -> Spec {
    Spec {
        prop: "C18",
        level: "exploration",
        rule: "Reference filter (positional topics, null = wildcard, list = alternatives, address equality, order (block, txIndex, logIndex), each log once) over the receipts the harness collected, compared as a list with eth_getLogs for generated filters: address {none, emitter, other} x up to 4 topic positions {absent, null, hit, miss, list with hit, list of misses} x ranges {single block, default latest, 2..6 blocks, 7 (must be refused), reversed, hex/decimal/tag spellings}; every filter asked while all blocks are uncommitted, after commit, and while later uncommitted blocks exist. Unspecified corners (empty alternative list, null inside a list) are sent but only checked for 'no crash, same answer committed/uncommitted'. Logs come from directly called contracts, from contracts one call frame down (receipt.to differs from log.address) and from the bridge's token contracts. One shard in sixteen also runs a mass case: a transaction with over 10 000 logs and six blocks that exceed 10 000 matching logs only together, queried uncommitted and committed. Non-trivial = filter whose reference answer has >=2 logs from >=2 transactions; distinct by filter shape.",
        assumptions: vec!["a null at a position beyond a log's topic count is read as 'constrains nothing' (the statement says null = wildcard)".into()],
        exhaustive: false,
        min_nontrivial: 2,
    }
}

#[derive(Clone, Debug)]
struct RefLog {
    json: Value,
    block: u64,
    address: String,
    topics: Vec<String>,
    tx: String,
}

fn topic(i: u64) -> String {
    crate::hist::bh((0x70_0000 + i) as u64)
}

/// A topic value as logs carry and filters name them: one of four ordinary values or - one time in six -
/// the all-zero word, which is an ordinary value too (the zero address of a mint, an indexed 0).
fn tpick(rng: &mut Rng) -> String {
    if rng.chance(1, 6) {
        crate::hist::ZERO_HASH.to_string()
    } else {
        topic(rng.below(4))
    }
}

#[derive(Clone, Debug)]
enum Pos {
    Null,
    One(String),
    Many(Vec<Option<String>>),
}

#[derive(Clone, Debug)]
struct Filter {
    from: Option<(u64, String)>,
    to: Option<(u64, String)>,
    address: Option<String>,
    topics: Option<Vec<Pos>>,
    unspecified: bool,
}

impl Filter {
    fn json(&self) -> Value {
        let mut o = serde_json::Map::new();
        if let Some((_, s)) = &self.from {
            o.insert("fromBlock".into(), json!(s));
        }
        if let Some((_, s)) = &self.to {
            o.insert("toBlock".into(), json!(s));
        }
        if let Some(a) = &self.address {
            o.insert("address".into(), json!(a));
        }
        if let Some(t) = &self.topics {
            o.insert(
                "topics".into(),
                Value::Array(
                    t.iter()
                        .map(|p| match p {
                            Pos::Null => Value::Null,
                            Pos::One(s) => json!(s),
                            Pos::Many(v) => Value::Array(v.iter().map(|x| x.as_ref().map(|s| json!(s)).unwrap_or(Value::Null)).collect()),
                        })
                        .collect(),
                ),
            );
        }
        Value::Object(o)
    }
    fn shape(&self) -> String {
        let t = self.topics.as_ref().map(|t| t.iter().map(|p| match p { Pos::Null => "n".to_string(), Pos::One(_) => "1".to_string(), Pos::Many(v) => format!("m{}", v.len()) }).collect::<Vec<_>>().join("")).unwrap_or_else(|| "-".into());
        let r = match (&self.from, &self.to) {
            (Some((a, _)), Some((b, _))) => format!("w{}", *b as i64 - *a as i64),
            (Some(_), None) => "from-only".into(),
            (None, None) => "default".into(),
            (None, Some(_)) => "to-only".into(),
        };
        format!("a{}:t{}:{}", self.address.is_some(), t, r)
    }
}

/// Spellings whose meaning moves with the chain tip.
fn relative(s: &str) -> bool {
    ["latest", "safe", "finalized", "pending"].contains(&s)
}

fn spell(rng: &mut Rng, n: u64, latest: u64) -> String {
    match rng.below(4) {
        0 => format!("{}", n),
        1 if n == latest => (*rng.pick(&["latest", "latest", "safe", "finalized"])).to_string(),
        1 if n == latest + 1 => "pending".into(),
        2 if n == 0 => "earliest".into(),
        _ => format!("0x{:x}", n),
    }
}

fn reference(f: &Filter, logs: &[RefLog], latest: u64) -> Result<Vec<Value>, ()> {
    let from = f.from.as_ref().map(|x| x.0).unwrap_or(latest);
    let to = f.to.as_ref().map(|x| x.0).unwrap_or(from);
    if to < from || to - from > 5 {
        return Err(());
    }
    let mut out = Vec::new();
    for l in logs {
        if l.block < from || l.block > to {
            continue;
        }
        if let Some(a) = &f.address {
            if &l.address != a {
                continue;
            }
        }
        let mut ok = true;
        if let Some(ts) = &f.topics {
            for (i, p) in ts.iter().enumerate() {
                match p {
                    Pos::Null => {}
                    Pos::One(t) => {
                        if l.topics.get(i) != Some(t) {
                            ok = false;
                        }
                    }
                    Pos::Many(v) => {
                        if !v.iter().any(|x| x.is_some() && x.as_ref() == l.topics.get(i)) {
                            ok = false;
                        }
                    }
                }
            }
        }
        if ok {
            out.push(l.json.clone());
        }
    }
    Ok(out)
}

fn gen_filter(rng: &mut Rng, latest: u64, emitters: &[String]) -> Filter {
    let mut unspecified = false;
    let (from, to) = match rng.below(12) {
        0 => (None, None),
        1 => {
            let a = rng.range(0, latest);
            (Some((a, spell(rng, a, latest))), None)
        }
        2 => {
            // 7 blocks: must be refused
            let a = rng.range(0, latest.saturating_sub(6));
            (Some((a, spell(rng, a, latest))), Some((a + 6, spell(rng, a + 6, latest))))
        }
        3 => {
            // reversed
            let a = rng.range(1, latest.max(1));
            let b = rng.range(0, a - 1);
            (Some((a, spell(rng, a, latest))), Some((b, spell(rng, b, latest))))
        }
        _ => {
            let a = rng.range(0, latest);
            let w = rng.range(0, 5);
            let b = (a + w).min(latest + 1);
            (Some((a, spell(rng, a, latest))), Some((b, spell(rng, b, latest))))
        }
    };
    let address = match rng.below(4) {
        0 => None,
        1 => Some("0x00000000000000000000000000000000000000ee".to_string()),
        _ => Some(rng.pick(emitters).clone()),
    };
    let topics = if rng.chance(1, 5) {
        None
    } else {
        let n = rng.range(0, 4);
        Some(
            (0..n)
                .map(|_| match rng.below(7) {
                    0 | 1 => Pos::Null,
                    2 | 3 => Pos::One(tpick(rng)),
                    4 => Pos::One(topic(99)),
                    5 => Pos::Many(vec![Some(tpick(rng)), Some(topic(50 + rng.below(3)))]),
                    _ => match rng.below(4) {
                        0 => Pos::Many(vec![Some(topic(60)), Some(topic(61))]),
                        1 => {
                            unspecified = true;
                            Pos::Many(vec![])
                        }
                        2 => {
                            unspecified = true;
                            Pos::Many(vec![None, Some(topic(rng.below(4)))])
                        }
                        _ => Pos::Many(vec![Some(tpick(rng)), Some(tpick(rng)), Some(tpick(rng))]),
                    },
                })
                .collect(),
        )
    };
    Filter { from, to, address, topics, unspecified }
}

fn collect_logs(d: &mut Driver) -> Vec<RefLog> {
    // receipts of every block, in chain order, fetched by the block's transaction list
    let mut out = Vec::new();
    for n in 0..=(d.height.max(0) as u64) {
        let Resp::Ok(b) = d.inst.call("eth_getBlockByNumber", json!([format!("0x{:x}", n), false])) else { continue };
        for th in b["transactions"].as_array().cloned().unwrap_or_default() {
            if let Resp::Ok(rc) = d.inst.call("eth_getTransactionReceipt", json!([th])) {
                for l in rc["logs"].as_array().cloned().unwrap_or_default() {
                    out.push(RefLog {
                        block: n,
                        address: l["address"].as_str().unwrap_or("").to_string(),
                        topics: l["topics"].as_array().map(|a| a.iter().filter_map(|x| x.as_str().map(|s| s.to_string())).collect()).unwrap_or_default(),
                        tx: l["transactionHash"].as_str().unwrap_or("").to_string(),
                        json: l,
                    });
                }
            }
        }
    }
    out
}

fn grow_logs(rng: &mut Rng, d: &mut Driver, emitters: &[String], blocks: u64, uniq: &mut u64) -> Vec<Value> {
    let pk = "5120dddddddddddddddddddddddddddddddddddddddddddddddddddddddddddddddd".to_string();
    let mut handed = Vec::new();
    for _ in 0..blocks {
        *uniq += 1;
        let hash = crate::hist::bh((0x18_0000 + *uniq) as u64);
        let ts = 1000 + *uniq;
        let ntx = rng.range(0, 4);
        for _ in 0..ntx {
            let e = rng.pick(emitters).clone();
            *uniq += 1;
            if rng.chance(1, 8) {
                // bridge traffic: the controller calls the token contract, which emits the Transfer log
                let r = d.exec(Op::Deposit { pk: pk.clone(), ticker: (*rng.pick(&["lgs", "LGS", "lg2"])).to_string(), amount: format!("0x{:x}", rng.range(1, 1000)), ctx: Ctx { ts, hash: hash.clone(), idx: d.ntx }, iid: format!("c18-dep-{}i0", *uniq) });
                handed.extend(hist::receipts_in(&r));
                continue;
            }
            let data = if rng.chance(1, 4) {
                // the log is emitted one call frame down, by the other emitter: receipt.to != log.address
                let other = rng.pick(emitters).clone();
                let n = rng.below(5);
                let inner = asm::tool_call(asm::OP_LOG, &[asm::word_u64(n), hist_word(&tpick(rng)), hist_word(&tpick(rng)), hist_word(&tpick(rng)), hist_word(&tpick(rng)), asm::word_u64(*uniq)], &[]);
                asm::tool_call(asm::OP_CALL, &[asm::word_addr(&hist::parse_addr(&other))], &inner)
            } else if rng.chance(2, 3) {
                let n = rng.below(5);
                asm::tool_call(asm::OP_LOG, &[asm::word_u64(n), hist_word(&tpick(rng)), hist_word(&tpick(rng)), hist_word(&tpick(rng)), hist_word(&tpick(rng)), asm::word_u64(*uniq)], &[])
            } else {
                // several LOG2 in one transaction: topic1 shared, topic2 = base + i
                asm::tool_call(asm::OP_LOGS, &[asm::word_u64(rng.range(2, 4)), hist_word(&topic(rng.below(4))), asm::word_u64(0x70_0000 + rng.below(3))], &[])
            };
            let r = d.exec(Op::Call { pk: pk.clone(), target: Target::Addr(e), data: Some(hist::hx(&data)), enc: Enc::Hex, ctx: Ctx { ts, hash: hash.clone(), idx: d.ntx }, iid: format!("c18-{}i0", *uniq), len: 100_000, txid: hist::ZERO_HASH.into() });
            handed.extend(hist::receipts_in(&r));
        }
        let c = d.ntx;
        d.exec(Op::Finalise { ts, hash, count: c });
    }
    handed
}

fn hist_word(t: &str) -> [u8; 32] {
    let mut w = [0u8; 32];
    w.copy_from_slice(&hex::decode(t.trim_start_matches("0x")).unwrap());
    w
}

fn ask_all(ctx: &WorkerCtx, rep: &mut WorkerReport, d: &mut Driver, filters: &[Filter], logs: &[RefLog], phase: &str, case_seed: u64, first_answers: &mut Vec<Option<Value>>) -> bool {
    let latest = d.height.max(0) as u64;
    for (i, f) in filters.iter().enumerate() {
        let got = d.inst.call("eth_getLogs", json!([f.json()]));
        rep.evaluations += 1;
        if let Resp::Panic(m) = &got {
            violation(rep, "C18", ctx.seed, "getlogs-panic", format!("eth_getLogs panicked: {}", m), json!({"filter": f.json(), "phase": phase, "case_seed": case_seed}));
            return false;
        }
        if f.unspecified {
            // only: same answer in every phase whose range lies inside blocks that exist in all phases
            let cur = crate::obs::canon_resp(&got);
            if phase == "uncommitted" {
                first_answers[i] = Some(cur);
            } else if phase == "committed" {
                if first_answers[i].as_ref() != Some(&cur) {
                    violation(rep, "C18", ctx.seed, "unspecified-corner-changes-with-commit", "a filter in an unspecified corner answers differently before and after commit".into(), json!({"filter": f.json(), "before": first_answers[i], "after": cur, "case_seed": case_seed}));
                    return false;
                }
            }
            continue;
        }
        let want = reference(f, logs, latest);
        match (&got, &want) {
            (Resp::Ok(Value::Array(a)), Ok(w)) => {
                if a != w {
                    let mut sa = a.clone();
                    sa.sort_by_key(|x| x.to_string());
                    let mut sw = w.clone();
                    sw.sort_by_key(|x| x.to_string());
                    let sig = if sa == sw { "order" } else if a.len() < w.len() { "missing-logs" } else if a.len() > w.len() { "extra-logs" } else { "different-logs" };
                    violation(rep, "C18", ctx.seed, &format!("getlogs-{}:{}", sig, phase),
                        format!("eth_getLogs returned {} logs, the reference filter {} ({}; blocks {})", a.len(), w.len(), sig, phase),
                        json!({"filter": f.json(), "phase": phase, "case_seed": case_seed, "got": a.iter().map(|l| json!([l["blockNumber"], l["transactionIndex"], l["logIndex"]])).collect::<Vec<_>>(),
                               "want": w.iter().map(|l| json!([l["blockNumber"], l["transactionIndex"], l["logIndex"]])).collect::<Vec<_>>(), "history": log_json(&d.log, 200)}));
                    return false;
                }
                let txs: std::collections::BTreeSet<&str> = w.iter().filter_map(|l| l["transactionHash"].as_str()).collect();
                if w.len() >= 2 && txs.len() >= 2 {
                    rep.nontrivial(format!("{}:{}", f.shape(), phase));
                }
                rep.count("answers_compared", 1);
                rep.count("logs_compared", w.len() as u64);
            }
            (Resp::Err { .. }, Err(())) => {
                rep.count("refused_as_expected", 1);
                let wide = matches!((&f.from, &f.to), (Some((a, _)), Some((b, _))) if b > a);
                if wide {
                    rep.nontrivial(format!("refused-wide:{}", phase));
                }
            }
            (Resp::Ok(Value::Array(a)), Err(())) => {
                let reversed = matches!((&f.from, &f.to), (Some((x, _)), Some((y, _))) if y < x) || matches!((&f.from, &f.to), (None, Some((y, _))) if *y < latest);
                if reversed && a.is_empty() {
                    continue; // reversed: error or empty accepted
                }
                violation(rep, "C18", ctx.seed, if reversed { "reversed-range-answered" } else { "wide-range-answered" }, format!("a range of more than 6 blocks was answered with {} logs", a.len()), json!({"filter": f.json(), "case_seed": case_seed}));
                return false;
            }
            (other, Ok(w)) => {
                violation(rep, "C18", ctx.seed, "getlogs-refused", format!("a well-formed filter over <=6 blocks was refused: {} (reference has {} logs)", other.short(), w.len()), json!({"filter": f.json(), "phase": phase, "case_seed": case_seed}));
                return false;
            }
            _ => {}
        }
    }
    true
}

fn one_case(ctx: &WorkerCtx, rep: &mut WorkerReport, case_seed: u64, nfilters: usize) {
    let mut rng = Rng::new(case_seed);
    let mut d = new_driver("C18");
    d.exec(Op::Init { hash: hist::ZERO_HASH.into(), ts: 1, height: 0 });
    let pk = "5120dddddddddddddddddddddddddddddddddddddddddddddddddddddddddddddddd".to_string();
    let hash = crate::hist::bh((0x18u64) as u64);
    let mut emitters = Vec::new();
    for i in 0..2u64 {
        let r = d.exec(Op::Deploy { pk: pk.clone(), data: hist::hx(&if i == 0 { asm::tool_init() } else { asm::tool_init_with_ctor() }), enc: Enc::Hex, ctx: Ctx { ts: 2, hash: hash.clone(), idx: i }, iid: format!("c18-deploy-{}i0", i), len: 100_000, txid: hist::ZERO_HASH.into() });
        if let Some(a) = hist::created_address(&r) {
            emitters.push(a);
        }
    }
    d.exec(Op::Finalise { ts: 2, hash, count: 2 });
    if emitters.len() < 2 {
        rep.inconclusive("could not deploy the emitters");
        drop_driver(d);
        return;
    }
    let mut uniq = 0u64;
    let nb = rng.range(7, 10);
    grow_logs(&mut rng, &mut d, &emitters, nb, &mut uniq);
    let latest = d.height as u64;
    let logs = collect_logs(&mut d);
    rep.count("reference_logs", logs.len() as u64);
    // address filters name every contract that ever logged (incl. the token contracts of the bridge)
    let mut emitters = emitters;
    for l in &logs {
        if !emitters.contains(&l.address) {
            emitters.push(l.address.clone());
        }
    }
    let filters: Vec<Filter> = (0..nfilters).map(|_| gen_filter(&mut rng, latest, &emitters)).collect();
    let mut first = vec![None; filters.len()];
    if !ask_all(ctx, rep, &mut d, &filters, &logs, "uncommitted", case_seed, &mut first) {
        drop_driver(d);
        return;
    }
    d.exec(Op::Commit);
    if !ask_all(ctx, rep, &mut d, &filters, &logs, "committed", case_seed, &mut first) {
        drop_driver(d);
        return;
    }
    // later uncommitted blocks on top of committed ones
    grow_logs(&mut rng, &mut d, &emitters, 3, &mut uniq);
    let logs2 = collect_logs(&mut d);
    // the old filters with explicit ranges still have the same reference answers, except
    // default/'latest'-spelled ones: regenerate a mixed set
    let latest2 = d.height as u64;
    let mut filters2: Vec<Filter> = filters.iter().filter(|f| f.from.is_some() && f.to.is_some() && !relative(&f.from.as_ref().unwrap().1) && !relative(&f.to.as_ref().unwrap().1)).cloned().collect();
    for _ in 0..nfilters / 2 {
        filters2.push(gen_filter(&mut rng, latest2, &emitters));
    }
    let mut first2 = vec![None; filters2.len()];
    if !ask_all(ctx, rep, &mut d, &filters2, &logs2, "mixed", case_seed, &mut first2) {
        drop_driver(d);
        return;
    }
    if rep.samples.len() < 2 {
        rep.sample(json!({"case_seed": case_seed, "blocks": latest2 + 1, "reference_logs": logs2.len(), "filters": filters.len() * 2 + filters2.len(), "a_filter": filters.iter().find(|f| f.topics.is_some()).map(|f| f.json())}));
    }
    let _ = logs2.first().map(|l| l.tx.clone());
    drop_driver(d);
}

/// Many logs: more than 10 000 matching logs inside one legal range (one transaction emitting over
/// 10 000, and six blocks that only exceed it together). Nothing may be cut off silently.
fn mass_case(ctx: &WorkerCtx, rep: &mut WorkerReport, case_seed: u64) {
    let mut rng = Rng::new(case_seed);
    let mut d = new_driver("C18");
    d.exec(Op::Init { hash: hist::ZERO_HASH.into(), ts: 1, height: 0 });
    let pk = "5120dddddddddddddddddddddddddddddddddddddddddddddddddddddddddddddddd".to_string();
    let hash = crate::hist::bh(0x18aa);
    let mut emitters = Vec::new();
    for i in 0..2u64 {
        let r = d.exec(Op::Deploy { pk: pk.clone(), data: hist::hx(&asm::tool_init()), enc: Enc::Hex, ctx: Ctx { ts: 2, hash: hash.clone(), idx: i }, iid: format!("c18-mass-deploy-{}i0", i), len: 100_000, txid: hist::ZERO_HASH.into() });
        if let Some(a) = hist::created_address(&r) {
            emitters.push(a);
        }
    }
    d.exec(Op::Finalise { ts: 2, hash, count: 2 });
    if emitters.len() < 2 {
        rep.inconclusive("could not deploy the emitters");
        drop_driver(d);
        return;
    }
    // block 2: one transaction with a little over 10 000 logs; blocks 3..8: ~1 700..2 100 logs each
    let mut uniq = 0u64;
    let mut counts: Vec<Vec<u64>> = vec![vec![10_001 + rng.below(200)]];
    for _ in 0..6 {
        counts.push(vec![1_700 + rng.below(400), rng.range(1, 3)]);
    }
    for (b, txs) in counts.iter().enumerate() {
        let h = crate::hist::bh(0x18b0 + b as u64);
        for (i, c) in txs.iter().enumerate() {
            uniq += 1;
            let e = emitters[(b + i) % 2].clone();
            let data = asm::tool_call(asm::OP_LOGS, &[asm::word_u64(*c), hist_word(&topic((b % 3) as u64)), asm::word_u64(0x70_0000)], &[]);
            d.exec(Op::Call { pk: pk.clone(), target: Target::Addr(e), data: Some(hist::hx(&data)), enc: Enc::Hex, ctx: Ctx { ts: 10 + b as u64, hash: h.clone(), idx: i as u64 }, iid: format!("c18-mass-{}i0", uniq), len: 1_000_000, txid: hist::ZERO_HASH.into() });
        }
        let n = d.ntx;
        d.exec(Op::Finalise { ts: 10 + b as u64, hash: h, count: n });
    }
    let latest = d.height as u64;
    let logs = collect_logs(&mut d);
    rep.count("reference_logs", logs.len() as u64);
    let r = |a: u64, b: u64| (Some((a, format!("0x{:x}", a))), Some((b, format!("0x{:x}", b))));
    let mut filters: Vec<Filter> = Vec::new();
    for (from, to) in [r(2, 2), r(3, 8), r(3, 7), r(4, 8), r(2, 7), r(latest - 5, latest), r(5, 5)] {
        filters.push(Filter { from: from.clone(), to: to.clone(), address: None, topics: None, unspecified: false });
        filters.push(Filter { from: from.clone(), to: to.clone(), address: Some(emitters[0].clone()), topics: None, unspecified: false });
        filters.push(Filter { from, to, address: None, topics: Some(vec![Pos::Many(vec![Some(topic(0)), Some(topic(1))])]), unspecified: false });
    }
    let mut first = vec![None; filters.len()];
    let big = filters.iter().filter(|f| reference(f, &logs, latest).map(|v| v.len() > 10_000).unwrap_or(false)).count();
    if ask_all(ctx, rep, &mut d, &filters, &logs, "mass-uncommitted", case_seed, &mut first) {
        d.exec(Op::Commit);
        if ask_all(ctx, rep, &mut d, &filters, &logs, "mass-committed", case_seed, &mut first) {
            rep.nontrivial(format!("mass:{}-filters-over-10000-matches", big));
            rep.count("filters_with_over_10000_matches", 2 * big as u64);
        }
    }
    drop_driver(d);
}

pub fn worker(ctx: &WorkerCtx) -> WorkerReport {
    let (net, traces) = net_for_shard(ctx.shard);
    crate::setup_env(net, traces);
    let mut rep = WorkerReport::default();
    let mut rng = ctx.rng();
    let (cases, nf) = if ctx.thorough() { (6, 700) } else { (1, 250) };
    for _ in 0..cases {
        let cs = rng.next();
        one_case(ctx, &mut rep, cs, nf);
    }
    if ctx.shard % 16 == 0 {
        let cs = rng.next();
        mass_case(ctx, &mut rep, cs);
    }
    rep
}
