//! C13 — versioned tables behave like a simple map with a 10-block undo window.
//!
//! Layer 1: exhaustive BFS over BlockHistoryCacheData (real type) vs a never-pruned model.
//! Layer 2: BlockCachedDatabase on a temp RocksDB, random long sequences vs model.
//! Layer 3: BlockDatabase vs BTreeMap model.

use std::collections::{BTreeMap, BTreeSet, HashSet, VecDeque};
use std::hash::Hash;
use std::panic::{catch_unwind, AssertUnwindSafe};

use alloy::primitives::{Address, Uint};
use brc20_prog::verif::*;
use serde_json::json;

use super::common::violation;
use crate::report::{Spec, WorkerReport};
use crate::rng::Rng;
use crate::rpc;
use crate::WorkerCtx;

pub fn spec() -> Spec {
    Spec {
        prop: "C13",
        level: "exploration",
        rule: "Layer 1 (exhaustive small scope): BFS over {set a, set b, unset, advance 1/10/11 blocks, rollback to cur-k for k=0..12} on the real BlockHistoryCacheData from several base heights, states canonicalised relative to the current block, against a never-pruned model: latest, value after rollback (exact inside the window of the highest block seen, panic-or-exact below it), <=11 versions, is_old soundness, encode/decode identity. Layer 2: random sequences on the real BlockCachedDatabase over RocksDB (3 key types) with set/unset/commit(next)/clear/reopen/rollback/latest/get_range/all vs a model keyed by encoded key; range scans must be complete and in key order. Layer 3: BlockDatabase vs a BTreeMap model. Wide tables: 300..4100 keys written long ago, idle blocks with commits (old history rows are purged), a few keys changed in two consecutive blocks around row numbers 1023/1024/1025/2048, the last block rolled back, every key compared, also after reopening. Non-trivial = distinct canonical (implementation, model) states (layer 1); sequences with a rollback crossing >=1 version and a range scan returning >=2 rows (layers 2-3).",
        assumptions: vec![
            "documented preconditions respected: block numbers never decrease except by rollback/discard; commit gets the next height; rollback depth is bounded by the caller (deeper rollbacks are tried separately and must be panic-or-exact at history level)".into(),
        ],
        exhaustive: false,
        min_nontrivial: 2,
    }
}

type V1 = U64ED;

#[derive(Clone)]
struct S1 {
    imp: BlockHistoryCacheData<V1>,
    model: Vec<(u64, Option<u64>)>,
    cur: u64,
    m: u64,
    path: Vec<String>,
}

fn parse_hist(bytes: &[u8]) -> Vec<(u64, Option<u64>)> {
    let mut out = Vec::new();
    let n = u32::from_be_bytes(bytes[0..4].try_into().unwrap()) as usize;
    let mut off = 4;
    for _ in 0..n {
        let b = u64::from_be_bytes(bytes[off..off + 8].try_into().unwrap());
        off += 8;
        let flag = bytes[off];
        off += 1;
        if flag == 1 {
            let v = u64::from_be_bytes(bytes[off..off + 8].try_into().unwrap());
            off += 8;
            out.push((b, Some(v)));
        } else {
            out.push((b, None));
        }
    }
    out
}

fn value_at(model: &[(u64, Option<u64>)], n: u64) -> Option<u64> {
    let mut v = None;
    for (b, x) in model {
        if *b <= n {
            v = *x;
        }
    }
    v
}

fn canon1(s: &S1) -> String {
    let h = parse_hist(&s.imp.encode_vec());
    let mut imp = Vec::new();
    for (b, v) in &h {
        let age = s.cur as i64 - *b as i64;
        imp.push((if age > 24 { 99 } else { age }, *v));
    }
    let span = (s.m - s.cur) + 24;
    let mv: Vec<Option<u64>> = (0..=span).map(|age| if s.cur >= age { value_at(&s.model, s.cur - age) } else { Some(777) }).collect();
    format!("{:?}|{}|{:?}", imp, s.m - s.cur, mv)
}

fn check1(rep: &mut WorkerReport, seed: u64, s: &S1) -> bool {
    let fail = |rep: &mut WorkerReport, sig: &str, what: String| {
        violation(rep, "C13", seed, sig, what, json!({"layer": 1, "ops": s.path, "current_block": s.cur, "highest_block": s.m, "history": format!("{:?}", parse_hist(&s.imp.encode_vec())), "model": format!("{:?}", s.model)}));
    };
    let latest = s.imp.latest().map(|v| v.uint.as_limbs()[0]);
    if latest != value_at(&s.model, s.cur) {
        fail(rep, "l1-latest", format!("latest() = {:?} but the model says {:?}", latest, value_at(&s.model, s.cur)));
        return false;
    }
    let enc = s.imp.encode_vec();
    let h = parse_hist(&enc);
    if h.len() > 11 {
        fail(rep, "l1-too-many-versions", format!("a history holds {} versions", h.len()));
        return false;
    }
    match BlockHistoryCacheData::<V1>::decode(&enc, 0) {
        Ok((d, n)) if n == enc.len() && d.encode_vec() == enc => {}
        _ => {
            fail(rep, "l1-codec", "history does not round-trip through its encoding".into());
            return false;
        }
    }
    // is_old soundness at the commit that would follow this block (and the following ones)
    for next in [s.m + 1, s.m + 2] {
        if s.imp.is_old(next) {
            let lo = (next - 1).saturating_sub(10);
            for n in lo..=s.cur {
                if value_at(&s.model, n) != latest {
                    fail(rep, "l1-is-old-unsound", format!("is_old({}) is true although a rollback to block {} (inside the window) needs a value other than the latest one", next, n));
                    return false;
                }
            }
        }
    }
    // rollbacks
    for k in 0..=12u64 {
        if k > s.cur {
            break;
        }
        let n = s.cur - k;
        let mut c = s.imp.clone();
        let r = catch_unwind(AssertUnwindSafe(|| {
            c.reorg(n);
            c.latest().map(|v| v.uint.as_limbs()[0])
        }));
        let in_window = n + 10 >= s.m;
        match r {
            Ok(got) => {
                if got != value_at(&s.model, n) {
                    fail(rep, if in_window { "l1-rollback-wrong" } else { "l1-deep-rollback-silently-wrong" }, format!("rollback to block {} gives {:?}, the model says {:?} (highest block {}, current {})", n, got, value_at(&s.model, n), s.m, s.cur));
                    return false;
                }
            }
            Err(_) => {
                if in_window {
                    fail(rep, "l1-rollback-panics-in-window", format!("rollback to block {} (inside the window of highest block {}) panicked", n, s.m));
                    return false;
                }
            }
        }
    }
    true
}

fn layer1(ctx: &WorkerCtx, rep: &mut WorkerReport, base: u64, max_states: usize) {
    let mut seen: HashSet<String> = HashSet::new();
    let mut q: VecDeque<S1> = VecDeque::new();
    for init in [None, Some(1u64)] {
        let s = S1 { imp: BlockHistoryCacheData::<V1>::new(init.map(|v| v.into())), model: vec![(0, init)], cur: base, m: base, path: vec![format!("new({:?})@{}", init, base)] };
        q.push_back(s);
    }
    let mut transitions = 0u64;
    let mut closed = true;
    for s in q.iter() {
        seen.insert(canon1(s));
    }
    let mut evaluated = 0usize;
    while let Some(s) = q.pop_front() {
        rep.evaluations += 1;
        evaluated += 1;
        {
            let mut h = std::collections::hash_map::DefaultHasher::new();
            use std::hash::Hasher;
            canon1(&s).hash(&mut h);
            rep.nontrivial(format!("l1:{}:{:x}", base, h.finish()));
        }
        if !check1(rep, ctx.seed, &s) {
            return;
        }
        if evaluated >= max_states {
            closed = false;
            break;
        }
        if s.path.len() > 40 {
            continue;
        }
        // successors
        let mut succ: Vec<S1> = Vec::new();
        for (name, val) in [("set a", Some(1u64)), ("set b", Some(2u64)), ("unset", None)] {
            let mut t = s.clone();
            let r = catch_unwind(AssertUnwindSafe(|| match val {
                Some(v) => t.imp.set(t.cur, v.into()),
                None => t.imp.unset(t.cur),
            }));
            if r.is_err() {
                violation(rep, "C13", ctx.seed, "l1-write-panics", format!("{} at the current block panicked", name), json!({"layer": 1, "ops": s.path, "op": name}));
                return;
            }
            t.model.push((t.cur, val));
            t.path.push(format!("{}@{}", name, t.cur));
            succ.push(t);
        }
        for adv in [1u64, 9, 10, 11] {
            let mut t = s.clone();
            t.cur += adv;
            t.m = t.m.max(t.cur);
            t.path.push(format!("advance {}", adv));
            succ.push(t);
        }
        for k in 1..=12u64 {
            if k > s.cur {
                break;
            }
            let n = s.cur - k;
            if n + 10 < s.m {
                continue; // the caller never rolls back deeper than the window (checked separately)
            }
            let mut t = s.clone();
            let r = catch_unwind(AssertUnwindSafe(|| t.imp.reorg(n)));
            if r.is_err() {
                continue; // reported by check1
            }
            t.model.retain(|(b, _)| *b <= n);
            t.cur = n;
            t.path.push(format!("rollback {}", n));
            succ.push(t);
        }
        transitions += succ.len() as u64;
        for t in succ {
            if seen.insert(canon1(&t)) {
                q.push_back(t);
            }
        }
    }
    rep.count("l1_states", seen.len() as u64);
    rep.count("l1_transitions", transitions);
    rep.count("l1_states_checked", evaluated as u64);
    rep.notes.push(format!("layer1 base {}: {} canonical states checked ({} discovered), {} transitions, frontier exhausted={}", base, evaluated, seen.len(), transitions, closed));
    if rep.samples.len() < 2 {
        rep.sample(json!({"layer": 1, "base_height": base, "canonical_states_checked": evaluated, "discovered": seen.len(), "transitions": transitions, "closed": closed, "one_state": seen.iter().next()}));
    }
}

/// Layer 1b: long random walks on the same structure. The breadth-first search stays shallow (a
/// few thousand states per depth); a history only fills its window after ten or more writes in
/// consecutive blocks, so walks biased towards "write, next block" reach full windows, and what a
/// deletion, a rollback or an idle stretch does to a full window.
fn layer1_walks(ctx: &WorkerCtx, rep: &mut WorkerReport, base: u64, walks: u64) {
    let mut rng = crate::rng::Rng::new(ctx.seed ^ base.wrapping_mul(0x9e37_79b9) ^ 0x1b);
    let mut full_then_unset = 0u64;
    for _ in 0..walks {
        let init = if rng.chance(1, 2) { Some(1u64) } else { None };
        let mut s = S1 { imp: BlockHistoryCacheData::<V1>::new(init.map(|v| v.into())), model: vec![(0, init)], cur: base, m: base, path: vec![format!("new({:?})@{}", init, base)] };
        let mut next_val = 2u64;
        // half of the walks start by filling the window: a write in each of 9..12 consecutive blocks
        let mut forced: VecDeque<u64> = VecDeque::new();
        if rng.chance(1, 2) {
            for _ in 0..rng.range(9, 12) {
                forced.push_back(0);
                forced.push_back(10);
            }
        }
        for _ in 0..rng.range(30, 60) {
            let versions_before = parse_hist(&s.imp.encode_vec()).len();
            let pick = forced.pop_front().unwrap_or_else(|| rng.below(20));
            match pick {
                0..=7 => {
                    // a value differing from the current one (an equal value need not add a version)
                    next_val += 1;
                    let v = next_val;
                    let r = catch_unwind(AssertUnwindSafe(|| s.imp.set(s.cur, v.into())));
                    if r.is_err() {
                        violation(rep, "C13", ctx.seed, "l1-write-panics", "set at the current block panicked".into(), json!({"layer": "1b", "ops": s.path}));
                        return;
                    }
                    s.model.push((s.cur, Some(v)));
                    s.path.push(format!("set {}@{}", v, s.cur));
                }
                8..=9 => {
                    let r = catch_unwind(AssertUnwindSafe(|| s.imp.unset(s.cur)));
                    if r.is_err() {
                        violation(rep, "C13", ctx.seed, "l1-write-panics", "unset at the current block panicked".into(), json!({"layer": "1b", "ops": s.path}));
                        return;
                    }
                    s.model.push((s.cur, None));
                    s.path.push(format!("unset@{}", s.cur));
                    if versions_before >= 11 {
                        full_then_unset += 1;
                    }
                }
                10..=17 => {
                    let adv = if pick != 10 && rng.chance(1, 12) { *rng.pick(&[2u64, 9, 10, 11]) } else { 1 };
                    s.cur += adv;
                    s.m = s.m.max(s.cur);
                    s.path.push(format!("advance {}", adv));
                }
                _ => {
                    let k = rng.range(1, 3);
                    if k > s.cur || (s.cur - k) + 10 < s.m {
                        continue;
                    }
                    let n = s.cur - k;
                    if catch_unwind(AssertUnwindSafe(|| s.imp.reorg(n))).is_err() {
                        continue; // reported by check1 of the previous state
                    }
                    s.model.retain(|(b, _)| *b <= n);
                    s.cur = n;
                    s.path.push(format!("rollback {}", n));
                }
            }
            rep.evaluations += 1;
            if !check1(rep, ctx.seed, &s) {
                return;
            }
            let n = parse_hist(&s.imp.encode_vec()).len();
            if n >= 10 {
                rep.nontrivial(format!("l1b:{}:{}-versions:{}", base, n, s.path.last().map(|p| p.split(|c: char| c == ' ' || c == '@').next().unwrap_or("").to_string()).unwrap_or_default()));
            }
        }
    }
    rep.count("l1b_walks", walks);
    rep.count("l1b_deletions_of_a_key_with_a_full_window", full_then_unset);
}

// ---------------------------------------------------------------------------------------------
// Layer 2
// ---------------------------------------------------------------------------------------------

type Hist = Vec<(u64, Option<Vec<u8>>)>;

struct Model2 {
    working: BTreeMap<Vec<u8>, Hist>,
    committed: BTreeMap<Vec<u8>, Hist>,
    /// keys whose history row was deleted at a commit (too old for a rollback)
    purged: BTreeSet<Vec<u8>>,
    cur: u64,
    committed_cur: u64,
    m: u64,
}

fn latest_of(h: &Hist) -> Option<Vec<u8>> {
    h.last().and_then(|(_, v)| v.clone())
}

impl Model2 {
    fn latest(&self, k: &[u8]) -> Option<Vec<u8>> {
        self.working.get(k).and_then(latest_of)
    }
    fn live(&self) -> Vec<(Vec<u8>, Vec<u8>)> {
        self.working.iter().filter_map(|(k, h)| latest_of(h).map(|v| (k.clone(), v))).collect()
    }
}

fn table_case<K, V>(ctx: &WorkerCtx, rep: &mut WorkerReport, case_seed: u64, kname: &str, keys: Vec<K>, mkval: &dyn Fn(u64) -> V, steps: u64)
where
    K: Encode + Decode + Eq + Hash + Clone + std::fmt::Debug,
    V: Encode + Decode + Eq + Clone + std::fmt::Debug,
{
    let mut rng = Rng::new(case_seed);
    let dir = rpc::fresh_dir("C13");
    let open = |d: &std::path::Path| BlockCachedDatabase::<K, V, BlockHistoryCacheData<V>>::new(d, "t").expect("open table");
    let mut db = Some(open(&dir));
    let mut m = Model2 { working: BTreeMap::new(), committed: BTreeMap::new(), purged: BTreeSet::new(), cur: 1, committed_cur: 1, m: 1 };
    let mut trace: Vec<String> = Vec::new();
    let mut uniq = 0u64;
    let mut crossed = false;
    let mut big_scan = false;
    macro_rules! fail {
        ($sig:expr, $what:expr) => {{
            violation(rep, "C13", ctx.seed, $sig, $what, json!({"layer": 2, "key_type": kname, "case_seed": case_seed, "ops": trace.iter().rev().take(80).rev().collect::<Vec<_>>()}));
            drop(db.take());
            rpc::remove_dir(&dir);
            return;
        }};
    }
    // a panic inside the table on an operation of the plain interface is a violation, not a dead worker
    macro_rules! guard {
        ($name:expr, $e:expr) => {
            match catch_unwind(AssertUnwindSafe(|| $e)) {
                Ok(v) => v,
                Err(p) => {
                    let msg = p.downcast_ref::<String>().cloned().or_else(|| p.downcast_ref::<&str>().map(|s| s.to_string())).unwrap_or_default();
                    fail!(&format!("l2-panic:{}", $name), format!("{} panicked: {}", $name, msg))
                }
            }
        };
    }
    for _ in 0..steps {
        let t = db.as_mut().unwrap();
        match rng.weighted(&[30, 10, 12, 8, 4, 3, 5, 14, 10, 4]) {
            0 => {
                let k = rng.pick(&keys).clone();
                uniq += 1;
                let val = match rng.below(5) {
                    0 => mkval(7),
                    1 => mkval(8),
                    // the value the key had some versions ago (A, B, A)
                    2 => mkval(7 + (uniq % 2)),
                    _ => mkval(1000 + uniq),
                };
                trace.push(format!("set {:?} = {:?} @{}", k, val, m.cur));
                if guard!("set", t.set(m.cur, &k, val.clone())).is_err() {
                    fail!("l2-set-error", "set returned an error".to_string());
                }
                m.working.entry(k.encode_vec()).or_default().push((m.cur, Some(val.encode_vec())));
            }
            1 => {
                let k = rng.pick(&keys).clone();
                trace.push(format!("unset {:?} @{}", k, m.cur));
                if guard!("unset", t.unset(m.cur, &k)).is_err() {
                    fail!("l2-unset-error", "unset returned an error".to_string());
                }
                m.working.entry(k.encode_vec()).or_default().push((m.cur, None));
            }
            2 => {
                let adv = *rng.pick(&[1u64, 1, 1, 2, 9, 10, 11, 12]);
                m.cur += adv;
                m.m = m.m.max(m.cur);
                trace.push(format!("advance {} -> {}", adv, m.cur));
            }
            3 => {
                // commit(next block): block `cur` is finished
                trace.push(format!("commit({})", m.cur + 1));
                // which cached keys get their history row purged (model of the documented rule:
                // a history whose newest entry is more than 10 blocks below the next block is useless)
                if guard!("commit", t.commit(m.cur + 1)).is_err() {
                    fail!("l2-commit-error", "commit returned an error".to_string());
                }
                for (k, h) in m.working.iter() {
                    if let Some((b, _)) = h.last() {
                        if b + 10 < m.cur + 1 {
                            m.purged.insert(k.clone());
                        } else {
                            m.purged.remove(k);
                        }
                    }
                }
                m.committed = m.working.clone();
                m.committed_cur = m.cur;
                m.cur += 1;
                m.m = m.m.max(m.cur);
            }
            4 => {
                trace.push("clear_cache".into());
                t.clear_cache();
                m.working = m.committed.clone();
                m.cur = m.committed_cur + 1;
            }
            5 => {
                trace.push("reopen".into());
                drop(db.take());
                db = Some(open(&dir));
                m.working = m.committed.clone();
                m.cur = m.committed_cur + 1;
            }
            6 => {
                // rollback inside the window of the highest block ever written
                if m.cur < 2 {
                    continue;
                }
                let lo = m.m.saturating_sub(10).max(1);
                if lo >= m.cur {
                    continue;
                }
                let n = rng.range(lo, m.cur - 1);
                trace.push(format!("rollback({}) [cur {}, highest {}]", n, m.cur, m.m));
                let r = catch_unwind(AssertUnwindSafe(|| t.reorg(n)));
                match r {
                    Ok(Ok(())) => {}
                    Ok(Err(e)) => fail!("l2-rollback-error", format!("rollback inside the window returned an error: {}", e)),
                    Err(_) => fail!("l2-rollback-panics-in-window", format!("rollback to {} inside the window (highest block {}) panicked", n, m.m)),
                }
                for h in m.working.values_mut() {
                    let before = h.len();
                    h.retain(|(b, _)| *b <= n);
                    if h.len() != before {
                        crossed = true;
                    }
                }
                m.committed = m.working.clone();
                m.committed_cur = n;
                m.cur = n + 1;
            }
            7 => {
                let k = rng.pick(&keys).clone();
                let got = match guard!("latest", t.latest(&k)) {
                    Ok(g) => g.map(|v| v.encode_vec()),
                    Err(e) => fail!("l2-latest-error", format!("latest returned an error: {}", e)),
                };
                rep.evaluations += 1;
                if got != m.latest(&k.encode_vec()) {
                    trace.push(format!("latest {:?}", k));
                    fail!("l2-latest", format!("point read of {:?} differs from the model", k));
                }
            }
            8 => {
                // range scan with boundary keys
                let mut a = rng.pick(&keys).clone();
                let mut b = rng.pick(&keys).clone();
                if a.encode_vec() > b.encode_vec() {
                    std::mem::swap(&mut a, &mut b);
                }
                let (ea, eb) = (a.encode_vec(), b.encode_vec());
                let got = match guard!("get_range", t.get_range(&a, &b)) {
                    Ok(g) => g,
                    Err(e) => fail!("l2-range-error", format!("get_range returned an error: {}", e)),
                };
                let got: Vec<(Vec<u8>, Vec<u8>)> = got.into_iter().map(|(k, v)| (k.encode_vec(), v.encode_vec())).collect();
                let want: Vec<(Vec<u8>, Vec<u8>)> = m.live().into_iter().filter(|(k, _)| *k >= ea && *k < eb).collect();
                rep.evaluations += 1;
                if want.len() >= 2 {
                    big_scan = true;
                }
                if got != want {
                    trace.push(format!("get_range {:?} .. {:?}", a, b));
                    let mut gs = got.clone();
                    gs.sort();
                    let sig = if gs == want { "l2-range-order" } else { "l2-range-content" };
                    fail!(sig, format!("range scan returned {} rows, the model {} ({})", got.len(), want.len(), if gs == want { "same rows, not in key order" } else { "different rows" }));
                }
            }
            _ => {
                let got = match guard!("all", t.all()) {
                    Ok(g) => g,
                    Err(e) => fail!("l2-all-error", format!("all returned an error: {}", e)),
                };
                let mut got: Vec<(Vec<u8>, Vec<u8>)> = got.into_iter().map(|(k, v)| (k.encode_vec(), v.encode_vec())).collect();
                got.sort();
                rep.evaluations += 1;
                if got != m.live() {
                    trace.push("all".into());
                    fail!("l2-all", "full scan differs from the model".to_string());
                }
            }
        }
    }
    if crossed && big_scan {
        rep.nontrivial(format!("l2:{}:{:x}", kname, case_seed));
    }
    rep.count("l2_sequences", 1);
    if rep.samples.len() < 4 {
        rep.sample(json!({"layer": 2, "key_type": kname, "case_seed": case_seed, "steps": steps, "last_ops": trace.iter().rev().take(12).rev().collect::<Vec<_>>()}));
    }
    drop(db.take());
    rpc::remove_dir(&dir);
}

/// Directed: table-level rollback deeper than the window after the history row was purged.
fn deep_rollback_after_purge(ctx: &WorkerCtx, rep: &mut WorkerReport) {
    let dir = rpc::fresh_dir("C13");
    let mut t = BlockCachedDatabase::<U64ED, U64ED, BlockHistoryCacheData<U64ED>>::new(&dir, "t").expect("open");
    let k: U64ED = 5u64.into();
    let _ = t.set(15, &k, 111u64.into());
    let _ = t.commit(16);
    // another key keeps the table busy; key 5 idles for more than 10 blocks
    let k2: U64ED = 6u64.into();
    let _ = t.set(27, &k2, 222u64.into());
    let _ = t.set(27, &k, 111u64.into()); // same value: touches the cache entry, writes nothing new
    let _ = t.commit(28); // history of key 5 (newest entry 15) is too old now and is purged
    let r = catch_unwind(AssertUnwindSafe(|| t.reorg(12)));
    rep.evaluations += 1;
    let got = t.latest(&k).ok().flatten();
    match r {
        Ok(Ok(())) => {
            if got.is_some() {
                violation(rep, "C13", ctx.seed, "deep-rollback-after-purge",
                    "a table-level rollback below the 10-block window, after the key's history row was purged, silently keeps the value (written at block 15, rollback to 12)".into(),
                    json!({"layer": 2, "ops": ["set k=111 @15", "commit(16)", "set k2 @27", "set k=111 @27 (same value)", "commit(28)", "rollback(12)"], "latest(k)": format!("{:?}", got), "model": "None"}));
            }
        }
        _ => {}
    }
    drop(t);
    rpc::remove_dir(&dir);
}

// ---------------------------------------------------------------------------------------------
// Layer 3
// ---------------------------------------------------------------------------------------------

fn block_db_case(ctx: &WorkerCtx, rep: &mut WorkerReport, case_seed: u64, steps: u64) {
    let mut rng = Rng::new(case_seed);
    let dir = rpc::fresh_dir("C13");
    let mut db = Some(BlockDatabase::<U64ED>::new(&dir, "b").expect("open"));
    let mut disk: BTreeMap<u64, u64> = BTreeMap::new();
    let mut cache: BTreeMap<u64, u64> = BTreeMap::new();
    let mut trace: Vec<String> = Vec::new();
    let mut uniq = 0u64;
    let mut nt = false;
    macro_rules! fail {
        ($sig:expr, $what:expr) => {{
            violation(rep, "C13", ctx.seed, $sig, $what, json!({"layer": 3, "case_seed": case_seed, "ops": trace.iter().rev().take(60).rev().collect::<Vec<_>>()}));
            drop(db.take());
            rpc::remove_dir(&dir);
            return;
        }};
    }
    for _ in 0..steps {
        let t = db.as_mut().unwrap();
        let top = disk.keys().chain(cache.keys()).max().cloned();
        match rng.weighted(&[25, 20, 8, 4, 3, 8, 12]) {
            0 => {
                let n = top.map(|t| t + 1).unwrap_or(rng.range(0, 3));
                uniq += 1;
                trace.push(format!("set {} = {}", n, uniq));
                t.set(n, uniq.into());
                cache.insert(n, uniq);
            }
            1 => {
                let n = rng.range(0, top.unwrap_or(0) + 2);
                let got = t.get(n).ok().flatten().map(|v| v.uint.as_limbs()[0]);
                let want = cache.get(&n).or(disk.get(&n)).cloned();
                rep.evaluations += 1;
                if got != want {
                    trace.push(format!("get {}", n));
                    fail!("l3-get", format!("get({}) = {:?}, model {:?}", n, got, want));
                }
            }
            2 => {
                trace.push("commit".into());
                if t.commit().is_err() {
                    fail!("l3-commit-error", "commit failed".to_string());
                }
                for (k, v) in &cache {
                    disk.insert(*k, *v);
                }
            }
            3 => {
                trace.push("clear_cache".into());
                t.clear_cache();
                cache.clear();
            }
            4 => {
                trace.push("reopen".into());
                drop(db.take());
                db = Some(BlockDatabase::<U64ED>::new(&dir, "b").expect("open"));
                cache.clear();
            }
            5 => {
                let Some(tp) = top else { continue };
                let n = rng.range(tp.saturating_sub(12), tp);
                trace.push(format!("rollback({})", n));
                if t.reorg(n).is_err() {
                    fail!("l3-rollback-error", "rollback failed".to_string());
                }
                let before = disk.len() + cache.len();
                disk.retain(|k, _| *k <= n);
                cache.retain(|k, _| *k <= n);
                if disk.len() + cache.len() != before {
                    nt = true;
                }
            }
            _ => {
                let got = t.last_key().ok().flatten();
                rep.evaluations += 1;
                if got != top {
                    trace.push("last_key".into());
                    fail!("l3-last-key", format!("last_key() = {:?}, model {:?}", got, top));
                }
            }
        }
    }
    if nt {
        rep.nontrivial(format!("l3:{:x}", case_seed));
    }
    rep.count("l3_sequences", 1);
    drop(db.take());
    rpc::remove_dir(&dir);
}

/// Wide table: thousands of keys written long ago (their history rows are purged at later commits),
/// then a few keys change in two consecutive blocks and the last block is rolled back. Every key is
/// compared with the model afterwards (and again after reopening).
fn wide_table_case(ctx: &WorkerCtx, rep: &mut WorkerReport, case_seed: u64) {
    let mut rng = Rng::new(case_seed);
    let dir = rpc::fresh_dir("C13");
    let open = |d: &std::path::Path| BlockCachedDatabase::<U64ED, U64ED, BlockHistoryCacheData<U64ED>>::new(d, "wide").expect("open table");
    let mut db = Some(open(&dir));
    let n = *rng.pick(&[300u64, 1023, 1024, 1025, 1030, 2050, 4100]) + rng.below(3);
    // keys are spread so that later writes fall between, before and after old ones in key order
    let key = |i: u64| -> U64ED { (i * 10).into() };
    let mut model: BTreeMap<u64, Vec<(u64, Option<u64>)>> = BTreeMap::new();
    let mut trace: Vec<String> = vec![format!("{} keys", n)];
    macro_rules! fail {
        ($sig:expr, $what:expr) => {{
            violation(rep, "C13", ctx.seed, $sig, $what, json!({"layer": "wide", "case_seed": case_seed, "ops": trace}));
            drop(db.take());
            rpc::remove_dir(&dir);
            return;
        }};
    }
    macro_rules! guard {
        ($name:expr, $e:expr) => {
            match catch_unwind(AssertUnwindSafe(|| $e)) {
                Ok(v) => v,
                Err(_) => fail!(&format!("wide-panic:{}", $name), format!("{} panicked on a table of {} keys", $name, n)),
            }
        };
    }
    let mut cur = 1u64;
    {
        let t = db.as_mut().unwrap();
        for i in 0..n {
            // a tenth of the old keys is written a few blocks later than the rest
            let b = if i % 10 == 3 { cur + 2 } else { cur };
            let _ = b;
            if guard!("set", t.set(cur, &key(i), (1000 + i).into())).is_err() {
                fail!("wide-set-error", "set returned an error".to_string());
            }
            model.entry(i * 10).or_default().push((cur, Some(1000 + i)));
        }
        trace.push(format!("set all @{}", cur));
        if guard!("commit", t.commit(cur + 1)).is_err() {
            fail!("wide-commit-error", "commit returned an error".to_string());
        }
        trace.push(format!("commit({})", cur + 1));
        cur += 1;
        // the engine drops its in-memory copies after writing them out: the history rows then stay
        // on disk until a rollback loads them again (and finds them too old)
        if rng.chance(3, 4) {
            t.clear_cache();
            trace.push("clear_cache".into());
        }
    }
    // idle blocks, some with a commit: the old rows age out of the window
    let idle = rng.range(9, 14);
    for _ in 0..idle {
        cur += 1;
        if rng.chance(1, 2) {
            let t = db.as_mut().unwrap();
            // a fresh key now and then so that the commits have something to write
            let extra = n * 10 + 5 + cur;
            let _ = guard!("set", t.set(cur, &extra.into(), cur.into()));
            model.entry(extra).or_default().push((cur, Some(cur)));
            if guard!("commit", t.commit(cur + 1)).is_err() {
                fail!("wide-commit-error", "commit returned an error".to_string());
            }
            trace.push(format!("set {} @{}, commit({})", extra, cur, cur + 1));
            if rng.chance(1, 2) {
                t.clear_cache();
                trace.push("clear_cache".into());
            }
        }
    }
    // two consecutive blocks change a few keys: existing ones (anywhere in key order, in particular
    // around multiples of 1024 rows), brand-new ones between them, and deletions
    let b1 = cur + 1;
    let b2 = cur + 2;
    let mut touched: Vec<u64> = Vec::new();
    for j in [0u64, 1, 2, 1022, 1023, 1024, 1025, 2047, 2048, 2049, n - 1] {
        if j < n {
            touched.push(j * 10);
            touched.push(j * 10 + 5); // a new key right after it
        }
    }
    // every second key on average: wherever an implementation draws a line through the key space (a
    // page, a batch, a shard), an old row sits next to a freshly changed one
    for i in 0..n {
        if rng.chance(1, 2) {
            touched.push(i * 10);
        }
        if rng.chance(1, 20) {
            touched.push(i * 10 + 5);
        }
    }
    touched.sort();
    touched.dedup();
    for (blk, base) in [(b1, 7_000_000u64), (b2, 9_000_000u64)] {
        let t = db.as_mut().unwrap();
        for k in &touched {
            if blk == b2 && k % 4 == 1 {
                continue;
            }
            if blk == b2 && k % 7 == 0 {
                let _ = guard!("unset", t.unset(blk, &(*k).into()));
                model.entry(*k).or_default().push((blk, None));
            } else {
                let _ = guard!("set", t.set(blk, &(*k).into(), (base + k).into()));
                model.entry(*k).or_default().push((blk, Some(base + k)));
            }
        }
        trace.push(format!("{} keys changed @{}", touched.len(), blk));
        if rng.chance(2, 3) || blk == b2 {
            if guard!("commit", t.commit(blk + 1)).is_err() {
                fail!("wide-commit-error", "commit returned an error".to_string());
            }
            trace.push(format!("commit({})", blk + 1));
        }
    }
    // roll the last block back
    {
        let t = db.as_mut().unwrap();
        match guard!("reorg", t.reorg(b1)) {
            Ok(()) => {}
            Err(e) => fail!("wide-rollback-error", format!("rollback by one block returned an error: {}", e)),
        }
        trace.push(format!("rollback({})", b1));
        for h in model.values_mut() {
            h.retain(|(b, _)| *b <= b1);
        }
    }
    for phase in ["after rollback", "after reopen"] {
        if phase == "after reopen" {
            drop(db.take());
            db = Some(open(&dir));
        }
        let t = db.as_mut().unwrap();
        let want: Vec<(u64, u64)> = model.iter().filter_map(|(k, h)| h.last().and_then(|(_, v)| *v).map(|v| (*k, v))).collect();
        let got = match guard!("all", t.all()) {
            Ok(g) => g,
            Err(e) => fail!("wide-all-error", format!("all returned an error: {}", e)),
        };
        let mut got: Vec<(u64, u64)> = got.into_iter().map(|(k, v)| (k.uint.to::<u64>(), v.uint.to::<u64>())).collect();
        got.sort();
        rep.evaluations += 1;
        if got != want {
            let bad: Vec<String> = want.iter().filter(|w| !got.contains(w)).take(5).map(|(k, v)| format!("key {} should be {}", k, v)).collect();
            fail!("wide-all", format!("{}: full scan of a {}-key table differs from the model ({} rows vs {}): {:?}", phase, n, got.len(), want.len(), bad));
        }
        for k in &touched {
            let got = match guard!("latest", t.latest(&(*k).into())) {
                Ok(g) => g.map(|v| v.uint.to::<u64>()),
                Err(e) => fail!("wide-latest-error", format!("latest returned an error: {}", e)),
            };
            rep.evaluations += 1;
            let want = model.get(k).and_then(|h| h.last()).and_then(|(_, v)| *v);
            if got != want {
                fail!("wide-latest", format!("{}: point read of key {} in a {}-key table is {:?}, the model says {:?}", phase, k, n, got, want));
            }
        }
    }
    rep.nontrivial(format!("wide:{}-keys:{}-idle", n / 100 * 100, idle));
    rep.count("wide_table_cases", 1);
    drop(db.take());
    rpc::remove_dir(&dir);
}

pub fn worker(ctx: &WorkerCtx) -> WorkerReport {
    rpc::install_panic_hook();
    let mut rep = WorkerReport::default();
    let mut rng = ctx.rng();
    let bases = [0u64, 1, 9, 10, 11, 25];
    if (ctx.shard as usize) < bases.len() {
        let max_states = if ctx.thorough() { 400_000 } else { 25_000 };
        layer1(ctx, &mut rep, bases[ctx.shard as usize], max_states);
        if rep.violations.is_empty() {
            layer1_walks(ctx, &mut rep, bases[ctx.shard as usize], if ctx.thorough() { 20_000 } else { 1_500 });
        }
        return rep;
    }
    if ctx.shard as usize == bases.len() {
        deep_rollback_after_purge(ctx, &mut rep);
    }
    for _ in 0..(if ctx.thorough() { 6 } else { 1 }) {
        let cs = rng.next();
        wide_table_case(ctx, &mut rep, cs);
    }
    let (seqs, steps) = if ctx.thorough() { (160, 400) } else { (48, 300) };
    for i in 0..seqs {
        let cs = rng.next();
        match i % 4 {
            0 => {
                // composite (block << 64 | idx) keys: dense in few blocks, boundary keys included
                let mut keys: Vec<U128ED> = Vec::new();
                for b in 0..4u64 {
                    for idx in [0u64, 1, 2, 3, u64::MAX] {
                        keys.push(UintED::new(Uint::<128, 2>::from_limbs([idx, b])));
                    }
                }
                table_case::<U128ED, U64ED>(ctx, &mut rep, cs, "U128ED(block<<64|idx)", keys, &|u| u.into(), steps);
            }
            1 => {
                let mut keys: Vec<(AddressED, U64ED)> = Vec::new();
                for a in [[0x11u8; 20], [0x22; 20], [0xff; 20]] {
                    for n in [0u64, 1, 2, 9, u64::MAX] {
                        keys.push((AddressED::new(Address::new(a)), n.into()));
                    }
                }
                table_case::<(AddressED, U64ED), String>(ctx, &mut rep, cs, "(AddressED,U64ED)", keys, &|u| format!("v{}", u), steps);
            }
            2 => {
                let keys: Vec<String> = (0..(1 + cs % 40)).map(|i| format!("inscription-{:03}i0", i)).collect();
                table_case::<String, B256ED>(ctx, &mut rep, cs, "String", keys, &|u| {
                    let mut b = [0u8; 32];
                    b[24..].copy_from_slice(&u.to_be_bytes());
                    b.into()
                }, steps);
            }
            _ => block_db_case(ctx, &mut rep, cs, steps),
        }
    }
    rep
}
