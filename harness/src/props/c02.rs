//! C02 — replicas fed the same call history agree byte for byte.
//!
//! (a) twin *processes* (different HashMap seeds, different directories, one of them restarted
//!     after commits) replay the same recorded call list; transcripts and Obs at every boundary
//!     must be identical. (b) pinned digests of a fixed corpus per network (golden files).

use std::collections::BTreeMap;
use std::path::PathBuf;
use std::process::Command;

use serde::{Deserialize, Serialize};
use serde_json::{json, Value};
use sha2::{Digest, Sha256};

use super::common::*;
use crate::asm;
use crate::fakebtc;
use crate::hist::{self, Ctx, Driver, Enc, Op, Target, World};
use crate::obs::{self, ObsMode, Universe};
use crate::pre;
use crate::report::{canon_string, Spec, WorkerReport};
use crate::rpc::{self, Resp};
use crate::WorkerCtx;

pub fn spec() -> Spec {
    Spec {
        prop: "C02",
        level: "exploration",
        rule: "Twin processes (own HashMap seeds and directories; the child twin is stopped and reopened after commits and also serves simulations as of heights around and beyond the rule-change heights that its sibling never sees) replay one recorded call list; every response and Obs at every block boundary compared after key-order canonicalisation and zeroing mineTimestamp, list order kept. Plus sha256 digests of a fixed, seed-independent corpus (all contract ops, every precompile, deposits/withdrawals, parked+drained signed transactions, multi-tx blocks) on regtest/signet/bitcoin against /verif/golden/<network>.json recorded under the same protocol/db version. Time-shifted twin: a short history with supplied timestamps 0 / u64::MAX and server-generated hashes is served by two instances 1.2 s apart (wall-clock time must not leak); the golden corpus ends with the same calls. Flood twin (one shard in sixteen): more than a thousand transactions parked at once by 120-140 senders, then predecessors arrive; both processes must show the same pool and the same drains. Non-trivial = a compared list-valued result with >=2 elements (logs, block transaction lists, raw receipts, trace strings); distinct by (history digest, query).",
        assumptions: vec![
            "golden digests pin today's behaviour of the listed corpus under protocol version/db version recorded in the golden file; if versions differ the golden comparison is skipped and reported as inconclusive".into(),
            "eth_call-type observations are restricted to time-independent code".into(),
        ],
        exhaustive: false,
        min_nontrivial: 2,
    }
}

#[derive(Serialize, Deserialize, Default)]
pub struct TwinOut {
    pub transcript: Vec<Value>,
    pub obs: Vec<BTreeMap<String, Value>>,
}

fn universe_json(u: &Universe) -> Value {
    json!({"addrs": u.addrs, "hashes": u.hashes, "iids": u.iids, "pk_tickers": u.pk_tickers, "slots": u.slots, "max_height": u.max_height, "min_height": u.min_height})
}

fn universe_from(v: &Value) -> Universe {
    let mut u = Universe::default();
    let strs = |k: &str| -> Vec<String> { v[k].as_array().map(|a| a.iter().filter_map(|x| x.as_str().map(|s| s.to_string())).collect()).unwrap_or_default() };
    u.addrs.extend(strs("addrs"));
    u.hashes.extend(strs("hashes"));
    u.iids.extend(strs("iids"));
    u.slots.extend(strs("slots"));
    if let Some(a) = v["pk_tickers"].as_array() {
        for p in a {
            if let (Some(x), Some(y)) = (p[0].as_str(), p[1].as_str()) {
                u.pk_tickers.insert((x.to_string(), y.to_string()));
            }
        }
    }
    u.max_height = v["max_height"].as_u64().unwrap_or(0);
    u.min_height = v["min_height"].as_u64().unwrap_or(0);
    u
}

/// Replay ops on a fresh directory; Obs at every successful block boundary.
pub fn replay_with_obs(ops: &[Op], u: &Universe, reopen_after_commit: bool) -> TwinOut {
    replay_with_obs_probes(ops, u, reopen_after_commit, true)
}

/// Simulations with Bitcoin-transaction overrides whose answer must not depend on the order in which a
/// request's override map happens to be walked: the map names a transaction under its txid and - with
/// other contents - under the byte-reversed txid (two different keys of a legal request). Asked six
/// times; every process must give the same six answers.
fn override_probes(inst: &mut crate::rpc::Inst, out: &mut BTreeMap<String, Value>) {
    let chain = crate::fakebtc::chain();
    if chain.txs.len() < 3 {
        return;
    }
    let k = chain.txs[2].txid_hex.clone();
    let rev: String = hex::encode(hex::decode(&k).unwrap_or_default().iter().rev().cloned().collect::<Vec<u8>>());
    let mut other = chain.txs[2].tx.clone();
    for o in other.output.iter_mut() {
        o.value = bitcoin::Amount::from_sat(o.value.to_sat() + 1);
    }
    let overrides = json!({"opReturnTxIds": [], "bitcoinTxHexes": {
        format!("0x{}", k): hist::hx(&chain.txs[2].raw),
        format!("0x{}", rev): hist::hx(&bitcoin::consensus::encode::serialize(&other)),
        format!("0x{}", chain.txs[1].txid_hex): hist::hx(&chain.txs[1].raw),
    }});
    let call = json!({"to": "0x00000000000000000000000000000000000000fd", "data": hist::hx(&crate::pre::get_tx_details(&chain.txs[2].txid_b32))});
    for i in 0..6 {
        let r = inst.call("eth_callMany", json!([[call.clone()], Value::Null, overrides.clone()]));
        out.insert(format!("eth_callMany getTxDetails with a mirrored override key #{}", i), obs::canon_resp(&r));
    }
}

/// Set in the child twin: it also serves queries its sibling never sees (simulations "as of" heights
/// around and far beyond the rule-change heights). The statement binds the answers to the indexer
/// calls, not to what else an instance was asked.
pub static EXTRA_READS: std::sync::atomic::AtomicBool = std::sync::atomic::AtomicBool::new(false);

fn extra_reads(inst: &mut crate::rpc::Inst, k: usize) {
    let heights = [274_999u64, 275_000, 923_369, 929_000, 5_000_000];
    let b = format!("0x{:x}", heights[k % heights.len()]);
    let call = json!({"to": hist::CONTROLLER, "data": "0x18160ddd"});
    let _ = inst.call("eth_call", json!([call.clone(), b.clone()]));
    let _ = inst.call("eth_estimateGas", json!([call.clone(), b.clone()]));
    let _ = inst.call("eth_callMany", json!([[call], b]));
}

pub fn replay_with_obs_probes(ops: &[Op], u: &Universe, reopen_after_commit: bool, probes: bool) -> TwinOut {
    let mut d = new_driver("C02");
    let mut out = TwinOut::default();
    for op in ops {
        let r = d.exec(op.clone());
        out.transcript.push(obs::canon_resp(&r));
        if matches!(op, Op::Commit) && reopen_after_commit && r.is_ok() {
            let _ = d.inst.reopen();
        }
        let boundary = matches!(op, Op::Finalise { .. } | Op::Mine { .. } | Op::Init { .. }) && r.is_ok();
        if boundary {
            let mut uu = u.clone();
            uu.max_height = d.height.max(0) as u64;
            if EXTRA_READS.load(std::sync::atomic::Ordering::Relaxed) {
                extra_reads(&mut d.inst, out.obs.len());
            }
            let mut entries = obs::observe(&mut d.inst, &uu, ObsMode::Boundary).entries;
            if probes && out.obs.len() % 4 == 1 {
                override_probes(&mut d.inst, &mut entries);
            }
            out.obs.push(entries);
        }
    }
    drop_driver(d);
    out
}

fn count_lists(v: &Value) -> u64 {
    match v {
        Value::Array(a) => (if a.len() >= 2 { 1 } else { 0 }) + a.iter().map(count_lists).sum::<u64>(),
        Value::Object(o) => o.values().map(count_lists).sum(),
        Value::String(s) => {
            // trace strings: elements separated by '|'
            if s.matches('|').count() >= 1 && !s.starts_with("0x") {
                1
            } else {
                0
            }
        }
        _ => 0,
    }
}

fn twin_case(ctx: &WorkerCtx, rep: &mut WorkerReport, case_seed: u64, blocks: u64) {
    let (net, _) = net_for_shard(ctx.shard);
    let mut rng = crate::rng::Rng::new(case_seed);
    let mut w = World::new(case_seed, rpc::chain_id_for(net));
    let scale = scale_world(&mut w, case_seed, true, false);
    rep.set_add("scale_profiles", scale);
    w.profile.p_empty_block = 8;
    w.profile.max_txs_per_block = 7;
    w.profile.w_call = 14;
    let mut p = new_driver("C02");
    grow(&mut w, &mut p, blocks, CommitPolicy::Random(35), &mut rng);
    let ops: Vec<Op> = p.log.iter().map(|(o, _)| o.clone()).collect();
    let u = universe(&[&p.log], p.height.max(0) as u64, Some(&w));
    drop_driver(p);
    compare_with_child_twin(ctx, rep, ops, u, net, case_seed);
}

/// More than a thousand transactions parked at once (130 senders with nonce gaps, nine each), then a
/// few predecessors arrive: whatever the pool does with that many entries, two processes must do the same.
fn flood_twin(ctx: &WorkerCtx, rep: &mut WorkerReport, case_seed: u64) {
    let (net, _) = net_for_shard(ctx.shard);
    let chain = rpc::chain_id_for(net);
    let mut rng = crate::rng::Rng::new(case_seed);
    let mut p = new_driver("C02");
    p.exec(Op::Init { hash: hist::ZERO_HASH.into(), ts: 1, height: 0 });
    let senders = 120 + rng.below(20);
    let data = asm::tool_init();
    let mut uniq = 0u64;
    let signers: Vec<hist::Signer> = (0..senders).map(|i| hist::Signer::new_seeded(case_seed.wrapping_add(i))).collect();
    // three blocks of parking, all inside the ten-block life of an entry
    for b in 0..3u64 {
        let h = hist::bh(0xf100d + b);
        for (si, s) in signers.iter().enumerate() {
            for k in 0..3u64 {
                let nonce = 1 + b * 3 + k;
                uniq += 1;
                let mut d2 = data.clone();
                d2.extend_from_slice(&[0xee, (si % 251) as u8, (si / 251) as u8]);
                let raw = s.sign(Some(chain), nonce, None, &d2);
                p.exec(Op::Transact { raw: format!("0x{}", raw), enc: Enc::Hex, ctx: Ctx { ts: 10 + b, hash: h.clone(), idx: 0 }, iid: format!("flood-{}i0", uniq), len: 100_000, txid: hist::ZERO_HASH.into() });
            }
        }
        p.exec(Op::Finalise { ts: 10 + b, hash: h, count: 0 });
    }
    // predecessors of a few senders: each drains what is left of that sender's chain
    let h = hist::bh(0xf1011);
    let mut count = 0u64;
    for si in (0..signers.len()).step_by(17) {
        uniq += 1;
        let mut d2 = data.clone();
        d2.extend_from_slice(&[0xee, (si % 251) as u8, (si / 251) as u8]);
        let raw = signers[si].sign(Some(chain), 0, None, &d2);
        let r = p.exec(Op::Transact { raw: format!("0x{}", raw), enc: Enc::Hex, ctx: Ctx { ts: 20, hash: h.clone(), idx: count }, iid: format!("flood-{}i0", uniq), len: 100_000, txid: hist::ZERO_HASH.into() });
        count += hist::receipts_in(&r).len() as u64;
    }
    p.exec(Op::Finalise { ts: 20, hash: h, count });
    p.exec(Op::Commit);
    p.exec(Op::Mine { n: 2, ts: 21 });
    let ops: Vec<Op> = p.log.iter().map(|(o, _)| o.clone()).collect();
    let mut u = universe(&[&p.log], p.height.max(0) as u64, None);
    for s in &signers {
        u.addrs.insert(hist::addr_hex(&s.addr));
    }
    drop_driver(p);
    rep.count("flood_parked_transactions", senders * 9);
    compare_with_child_twin(ctx, rep, ops, u, net, case_seed);
}

/// Replays `ops` in a fresh child process (its own hash seeds, its own process-wide state) and returns
/// what it answered and observed at every boundary.
pub fn replay_in_child(ctx: &WorkerCtx, ops: &[Op], u: &Universe, net: &str) -> Option<TwinOut> {
    let work = rpc::fresh_dir("C02");
    let opsfile = work.join("ops.json");
    let resfile = work.join("twin.json");
    std::fs::write(&opsfile, serde_json::to_string(&json!({"ops": ops, "universe": universe_json(u), "network": net})).unwrap()).ok()?;
    let exe = std::env::current_exe().ok()?;
    let status = Command::new(exe)
        .args(["worker", "C02", &ctx.tier, &ctx.seed.to_string(), &ctx.shard.to_string(), &ctx.nshards.to_string(), work.join("unused-report.json").to_str().unwrap(), "twin", opsfile.to_str().unwrap(), resfile.to_str().unwrap()])
        .status();
    let out: Option<TwinOut> = std::fs::read_to_string(&resfile).ok().and_then(|s| serde_json::from_str(&s).ok());
    rpc::remove_dir(&work);
    let _ = status;
    out
}

fn compare_with_child_twin(ctx: &WorkerCtx, rep: &mut WorkerReport, ops: Vec<Op>, u: Universe, net: &str, case_seed: u64) {
    let hd = digest_ops(&ops);
    // child process twin; the configuration accepts two spellings of main net ("bitcoin" and "mainnet",
    // same chain id, same reported network): every other main-net twin is configured through the alias
    let child_net = if net == "bitcoin" && ((ctx.shard / 3) % 2 == 1 || case_seed % 2 == 1) { "mainnet" } else { net };
    if child_net != net {
        rep.set_add("coverage", "twin-configured-through-network-alias".to_string());
    }
    let work = rpc::fresh_dir("C02");
    let opsfile = work.join("ops.json");
    let resfile = work.join("twin.json");
    std::fs::write(&opsfile, serde_json::to_string(&json!({"ops": ops, "universe": universe_json(&u), "network": child_net})).unwrap()).unwrap();
    let exe = std::env::current_exe().unwrap();
    let child = Command::new(exe)
        .args(["worker", "C02", &ctx.tier, &ctx.seed.to_string(), &ctx.shard.to_string(), &ctx.nshards.to_string(), work.join("unused-report.json").to_str().unwrap(), "twin", opsfile.to_str().unwrap(), resfile.to_str().unwrap()])
        .spawn();
    let mine = replay_with_obs(&ops, &u, false);
    let status = child.and_then(|mut c| c.wait());
    let theirs: Option<TwinOut> = std::fs::read_to_string(&resfile).ok().and_then(|s| serde_json::from_str(&s).ok());
    let Some(theirs) = theirs else {
        rep.inconclusive(format!("twin process produced no result ({:?})", status));
        rpc::remove_dir(&work);
        return;
    };
    rpc::remove_dir(&work);
    rep.evaluations += 1;
    rep.count("calls_compared", mine.transcript.len() as u64);
    for (i, (a, b)) in mine.transcript.iter().zip(theirs.transcript.iter()).enumerate() {
        if count_lists(a) > 0 {
            rep.nontrivial(format!("{}:call{}", hd, i));
        }
        if canon_string(a) != canon_string(b) {
            violation(rep, "C02", ctx.seed, &format!("twin-response-differs:{}", ops[i].kind()),
                "two processes fed the same calls returned different bytes for the same call".into(),
                json!({"case_seed": case_seed, "network": net, "op_index": i, "op": ops[i], "process_a": a, "process_b(restarted after commits)": b, "ops": ops_json(&ops[..=i])}));
            return;
        }
    }
    if mine.obs.len() != theirs.obs.len() || mine.transcript.len() != theirs.transcript.len() {
        violation(rep, "C02", ctx.seed, "twin-boundaries-differ", "twins disagree on the number of block boundaries/calls".into(), json!({"case_seed": case_seed, "a": mine.obs.len(), "b": theirs.obs.len()}));
        return;
    }
    for (bi, (oa, ob)) in mine.obs.iter().zip(theirs.obs.iter()).enumerate() {
        rep.count("obs_entries_compared", oa.len() as u64);
        for (k, va) in oa {
            let vb = ob.get(k).cloned().unwrap_or(Value::Null);
            if count_lists(va) > 0 {
                rep.nontrivial(format!("{}:{}", hd, k));
                rep.count("list_valued_comparisons", 1);
            }
            if canon_string(va) != canon_string(&vb) {
                let m = k.split(' ').next().unwrap_or("");
                violation(rep, "C02", ctx.seed, &format!("twin-obs-differs:{}", m),
                    format!("two processes fed the same calls answer the query {} differently at boundary {}", m, bi),
                    json!({"case_seed": case_seed, "network": net, "boundary": bi, "query": k, "process_a": va, "process_b(restarted after commits)": vb, "ops": ops_json(&ops)}));
                return;
            }
        }
    }
    if rep.samples.len() < 2 {
        rep.sample(json!({"kind": "twin", "case_seed": case_seed, "network": net, "calls": ops.len(), "boundaries": mine.obs.len(),
            "obs_entries_last": mine.obs.last().map(|o| o.len()).unwrap_or(0), "first_ops": ops_json(&ops[..ops.len().min(3)])}));
    }
}

/// Calls whose supplied timestamps are 0 (and u64::MAX): a value the engine might be tempted to
/// replace by "now".
fn zero_time_ops(pk: &str, next_height: u64, with_init: bool) -> Vec<Op> {
    let mut v = vec![];
    let mut h = next_height;
    if with_init {
        v.push(Op::Mine { n: 2, ts: 0 });
        v.push(Op::Init { hash: hist::ZERO_HASH.into(), ts: 0, height: h + 2 });
        h += 3;
    }
    v.push(Op::Mine { n: 1, ts: 0 });
    let bh = hist::bh(0x2e70_0000 + h);
    v.push(Op::Deposit { pk: pk.to_string(), ticker: "zts".into(), amount: "0x5".into(), ctx: Ctx { ts: 0, hash: bh.clone(), idx: 0 }, iid: format!("zero-ts-{}i0", h) });
    v.push(Op::Finalise { ts: 0, hash: bh, count: 1 });
    v.push(Op::Mine { n: 1, ts: u64::MAX });
    v.push(Op::Finalise { ts: 0, hash: hist::ZERO_HASH.into(), count: 0 });
    v.push(Op::Commit);
    v
}

/// Twin shifted in time: the same calls (with zero timestamps and server-generated hashes) are
/// served by two instances more than a second apart; wall-clock time must not leak into any answer.
fn time_shifted_twin(ctx: &WorkerCtx, rep: &mut WorkerReport) {
    let (net, _) = net_for_shard(ctx.shard);
    let pk = "5120d7d7d7d7d7d7d7d7d7d7d7d7d7d7d7d7d7d7d7d7d7d7d7d7d7d7d7d7d7d7d7";
    let ops = zero_time_ops(pk, 0, true);
    let mut d0 = new_driver("C02");
    for op in &ops {
        d0.exec(op.clone());
    }
    let u = universe(&[&d0.log], d0.height.max(0) as u64, None);
    drop_driver(d0);
    let a = replay_with_obs(&ops, &u, false);
    std::thread::sleep(std::time::Duration::from_millis(1200));
    let b = replay_with_obs(&ops, &u, true);
    rep.evaluations += 1;
    for (i, (x, y)) in a.transcript.iter().zip(b.transcript.iter()).enumerate() {
        if canon_string(x) != canon_string(y) {
            violation(rep, "C02", ctx.seed, &format!("time-shifted-response-differs:{}", ops[i].kind()), "the same call answered 1.2 s later by another instance returns different bytes".into(),
                json!({"network": net, "op": ops[i], "first": x, "later": y}));
            return;
        }
    }
    for (bi, (oa, ob)) in a.obs.iter().zip(b.obs.iter()).enumerate() {
        for (k, va) in oa {
            let vb = ob.get(k).cloned().unwrap_or(Value::Null);
            if canon_string(va) != canon_string(&vb) {
                let m = k.split(' ').next().unwrap_or("");
                violation(rep, "C02", ctx.seed, &format!("time-shifted-obs-differs:{}", m), format!("the query {} is answered differently by an instance fed the same calls 1.2 s later (boundary {})", m, bi),
                    json!({"network": net, "query": k, "first": va, "later": vb, "ops": ops_json(&ops)}));
                return;
            }
        }
    }
    rep.nontrivial(format!("time-shifted-twin:{}", net));
    rep.count("time_shifted_obs_entries", a.obs.iter().map(|o| o.len() as u64).sum());
}

// ---------------------------------------------------------------------------------------------
// Golden corpus
// ---------------------------------------------------------------------------------------------

/// A fixed, seed-independent history touching every feature. Returns the per-boundary digests and
/// the final per-query digests.
pub fn build_corpus(net: &str) -> (Vec<Op>, Universe) {
    let mut rng = crate::rng::Rng::new(0x601D);
    let mut w = World::new(0x601D_C0DE, rpc::chain_id_for(net));
    w.profile.p_empty_block = 10;
    w.profile.max_txs_per_block = 5;
    let mut d = new_driver("C02");
    grow(&mut w, &mut d, 6, CommitPolicy::Never, &mut rng);
    // explicit precompile block through a Tool
    if let Some(tool) = w.tools.first().cloned() {
        let blk = w.block_ctx(&d);
        let chain = fakebtc::chain();
        let mut calls: Vec<(u64, Vec<u8>)> = pre::standard_inputs();
        calls.push((pre::PC_TXID, pre::get_tx_id()));
        calls.push((pre::PC_LOCKED, pre::get_locked_pkscript(&hex::decode("5120e0e224cd541454519b62047aa0891ea7b81a16598556aeb83a412a0b06a20aab").unwrap(), asm::word_u64(6))));
        calls.push((pre::PC_LOCKED, pre::get_locked_pkscript(&hex::decode("5120e0e224cd541454519b62047aa0891ea7b81a16598556aeb83a412a0b06a20aab").unwrap(), asm::word_u64(52560))));
        calls.push((pre::PC_TXDETAILS, pre::get_tx_details(&chain.txs[2].txid_b32)));
        calls.push((pre::PC_TXDETAILS, pre::get_tx_details(&chain.txs[1].txid_b32)));
        calls.push((pre::PC_TXDETAILS, pre::get_tx_details(&[0x99; 32])));
        calls.push((pre::PC_LASTSAT, pre::get_last_sat_location(&chain.txs[2].txid_b32, 1, 5)));
        calls.push((pre::PC_LASTSAT, pre::get_last_sat_location(&chain.txs[0].txid_b32, 0, 5)));
        calls.push((pre::PC_BIP322, pre::bip322_verify(&hex::decode("00142b05d564e6a7a33c087f16e0f730d1440123799d").unwrap(), b"Hello World", &[0u8; 8])));
        let pk = w.pks[0].clone();
        // explicit context probe (NUMBER, TIMESTAMP, PREVRANDAO, CHAINID, BLOCKHASH, txid helper ...)
        {
            let data = asm::tool_call(asm::OP_PROBE, &[asm::word_u64(0x1000), asm::word_u64(1), asm::word_u64(2)], &[]);
            let ctx = Ctx { ts: blk.0, hash: blk.1.clone(), idx: d.ntx };
            d.exec(Op::Call { pk: pk.clone(), target: Target::Addr(tool.clone()), data: Some(hist::hx(&data)), enc: Enc::Hex, ctx, iid: w.iid(), len: 1_000_000, txid: w.txid() });
        }
        for (i, (addr, input)) in calls.into_iter().enumerate() {
            let data = asm::tool_call(if i % 2 == 0 { asm::OP_CALL } else { asm::OP_STATIC }, &[asm::word_u64(addr)], &input);
            let ctx = Ctx { ts: blk.0, hash: blk.1.clone(), idx: d.ntx };
            d.exec(Op::Call { pk: pk.clone(), target: Target::Addr(tool.clone()), data: Some(hist::hx(&data)), enc: Enc::Hex, ctx, iid: w.iid(), len: 1_000_000, txid: w.txid() });
        }
        let blk = d.open.clone().unwrap_or(blk);
        d.exec(Op::Finalise { ts: blk.0, hash: blk.1, count: d.ntx });
    }
    grow(&mut w, &mut d, 8, CommitPolicy::Never, &mut rng);
    // parked then drained signed transactions of signer 0
    {
        let s = w.signers[0].clone();
        let cur = hist::account_nonce(&mut d.inst, &s.addr);
        let blk = w.block_ctx(&d);
        let t = w.tools.first().map(|t| hist::parse_addr(t)).unwrap_or([0u8; 20]);
        for n in [cur + 2, cur + 1, cur] {
            let raw = s.sign(Some(w.chain_id), n, Some(t), &asm::tool_call(asm::OP_INC, &[asm::word_u64(2)], &[]));
            let ctx = Ctx { ts: blk.0, hash: blk.1.clone(), idx: d.ntx };
            d.exec(Op::Transact { raw: format!("0x{}", raw), enc: Enc::Hex, ctx, iid: w.iid(), len: 100_000, txid: w.txid() });
        }
        let blk = d.open.clone().unwrap_or(blk);
        d.exec(Op::Finalise { ts: blk.0, hash: blk.1, count: d.ntx });
    }
    d.exec(Op::Commit);
    grow(&mut w, &mut d, 3, CommitPolicy::Never, &mut rng);
    // one block of 257..300 transactions and more than 256 logs: indices beyond one byte are pinned too
    w.profile.p_big_block = 100;
    w.gen_block(&mut d);
    w.profile.p_big_block = 0;
    // blocks whose supplied timestamp is 0 or the largest value: nothing may be substituted for them
    for op in zero_time_ops(&w.pks[0], d.next_height(), false) {
        d.exec(op);
    }
    // digests: replay on a second directory with Obs at each boundary (the universe is known now)
    let ops: Vec<Op> = d.log.iter().map(|(o, _)| o.clone()).collect();
    let mut u = universe(&[&d.log], d.height.max(0) as u64, Some(&w));
    for k in 0..15u64 {
        u.add_slot_u64(0x1000 + k);
    }
    drop_driver(d);
    (ops, u)
}

/// Replays the recorded corpus; returns per-boundary digests, final per-query digests, final Obs.
pub fn digest_corpus(ops: &[Op], u: &Universe) -> (Vec<String>, BTreeMap<String, String>, BTreeMap<String, Value>) {
    let out = replay_with_obs_probes(ops, u, false, false);
    let mut per_boundary = Vec::new();
    for o in &out.obs {
        let mut h = Sha256::new();
        for (k, v) in o {
            h.update(k.as_bytes());
            h.update(canon_string(v).as_bytes());
        }
        per_boundary.push(hex::encode(h.finalize()));
    }
    let mut th = Sha256::new();
    for t in &out.transcript {
        th.update(canon_string(t).as_bytes());
    }
    per_boundary.push(format!("transcript:{}", hex::encode(th.finalize())));
    let last = out.obs.last().cloned().unwrap_or_default();
    let per_query: BTreeMap<String, String> = last
        .iter()
        .map(|(k, v)| {
            let mut h = Sha256::new();
            h.update(canon_string(v).as_bytes());
            (k.clone(), hex::encode(&h.finalize()[..6]))
        })
        .collect();
    (per_boundary, per_query, last)
}

fn golden_path(net: &str) -> PathBuf {
    std::env::var("VERIF_GOLDEN").map(PathBuf::from).unwrap_or_else(|_| crate::report::root().join("golden")).join(format!("{}.json", net))
}

pub fn golden_generate(net: &str) {
    let (ops, u) = build_corpus(net);
    let (pb, pq, _) = digest_corpus(&ops, &u);
    let (pv, dbv, crate_v) = brc20_prog::verif::versions();
    let body = json!({"network": net, "protocol_version": pv, "db_version": dbv, "crate_version": crate_v, "per_boundary": pb, "per_query_final": pq,
        "universe": universe_json(&u), "ops": ops});
    std::fs::create_dir_all(golden_path(net).parent().unwrap()).unwrap();
    std::fs::write(golden_path(net), serde_json::to_string_pretty(&body).unwrap()).unwrap();
    println!("golden {}: {} boundaries, {} final queries", net, pb.len(), pq.len());
}

fn golden_check(ctx: &WorkerCtx, rep: &mut WorkerReport, net: &str) {
    let Some(g): Option<Value> = std::fs::read_to_string(golden_path(net)).ok().and_then(|s| serde_json::from_str(&s).ok()) else {
        rep.inconclusive(format!("no golden file for {}", net));
        return;
    };
    let (pv, dbv, _) = brc20_prog::verif::versions();
    if g["protocol_version"].as_u64() != Some(pv as u64) || g["db_version"].as_u64() != Some(dbv as u64) {
        rep.inconclusive(format!("golden for {} was recorded under protocol/db version {}/{} but the tree reports {}/{}: the property only binds equal versions", net, g["protocol_version"], g["db_version"], pv, dbv));
        return;
    }
    let ops: Vec<Op> = match serde_json::from_value(g["ops"].clone()) {
        Ok(o) => o,
        Err(e) => {
            rep.inconclusive(format!("golden corpus for {} unreadable: {}", net, e));
            return;
        }
    };
    let u = universe_from(&g["universe"]);
    let (pb, pq, last) = digest_corpus(&ops, &u);
    rep.evaluations += 1;
    rep.count("golden_calls", ops.len() as u64);
    rep.count("golden_boundaries", pb.len() as u64);
    rep.count("golden_final_queries", pq.len() as u64);
    for (k, v) in &last {
        if count_lists(v) > 0 {
            rep.nontrivial(format!("golden:{}:{}", net, k));
        }
    }
    let gb: Vec<String> = g["per_boundary"].as_array().map(|a| a.iter().filter_map(|x| x.as_str().map(|s| s.to_string())).collect()).unwrap_or_default();
    let first_diff = pb.iter().zip(gb.iter()).position(|(a, b)| a != b).or(if pb.len() != gb.len() { Some(pb.len().min(gb.len())) } else { None });
    if let Some(fd) = first_diff {
        let mut diffs = Vec::new();
        if let Some(gq) = g["per_query_final"].as_object() {
            for (k, v) in &pq {
                if gq.get(k).and_then(|x| x.as_str()) != Some(v.as_str()) {
                    diffs.push(json!({"query": k, "now": last.get(k).map(|x| { let s = x.to_string(); if s.len() > 400 { format!("{}…", &s[..400]) } else { s } })}));
                }
                if diffs.len() >= 10 {
                    break;
                }
            }
        }
        let methods: std::collections::BTreeSet<String> = diffs.iter().filter_map(|d| d["query"].as_str().map(|q| q.split(' ').next().unwrap_or("").to_string())).collect();
        violation(rep, "C02", ctx.seed, &format!("golden-digest-differs:{}", net),
            format!("the pinned corpus on {} no longer produces the recorded bytes (first differing boundary {}; differing final queries: {:?})", net, fd, methods),
            json!({"network": net, "first_differing_boundary": fd, "some_differing_final_queries": diffs, "golden_file": golden_path(net)}));
    }
    rep.sample(json!({"kind": "golden", "network": net, "boundaries": pb.len(), "final_queries": pq.len(), "digest_last": pb.last()}));
}

pub fn worker(ctx: &WorkerCtx) -> WorkerReport {
    if ctx.shard == 8 {
        FORCE_HUGE.store(true, std::sync::atomic::Ordering::Relaxed);
    }
    let mut rep = WorkerReport::default();
    if ctx.extra.first().map(|s| s.as_str()) == Some("twin") {
        // child twin: replay and write the result
        let v: Value = serde_json::from_str(&std::fs::read_to_string(&ctx.extra[1]).expect("ops file")).expect("ops json");
        let net = v["network"].as_str().unwrap_or("regtest").to_string();
        let canonical = if net == "mainnet" { "bitcoin" } else { net.as_str() };
        let traces = NETS.iter().find(|(n, _)| *n == canonical).map(|(_, t)| *t).unwrap_or(true);
        crate::setup_env(&net, traces);
        let ops: Vec<Op> = serde_json::from_value(v["ops"].clone()).expect("ops");
        let u = universe_from(&v["universe"]);
        EXTRA_READS.store(true, std::sync::atomic::Ordering::Relaxed);
        let out = replay_with_obs(&ops, &u, true);
        std::fs::write(&ctx.extra[2], serde_json::to_string(&out).unwrap()).expect("write twin result");
        return rep;
    }
    if ctx.extra.first().map(|s| s.as_str()) == Some("golden-gen") {
        let net = NETS[(ctx.shard % 3) as usize];
        crate::setup_env(net.0, net.1);
        golden_generate(net.0);
        return rep;
    }
    let (net, traces) = net_for_shard(ctx.shard);
    if ctx.shard == 3 {
        // the pinned main-net digests must also hold for an instance configured as "mainnet"
        crate::setup_env("mainnet", NETS[2].1);
        golden_check(ctx, &mut rep, "bitcoin");
        rep.set_add("golden_networks", "bitcoin(configured as mainnet)");
        return rep;
    }
    crate::setup_env(net, traces);
    if ctx.shard < 3 {
        golden_check(ctx, &mut rep, net);
        rep.set_add("golden_networks", net);
        return rep;
    }
    let mut rng = ctx.rng();
    if ctx.shard < 6 || ctx.shard % 16 == 0 {
        time_shifted_twin(ctx, &mut rep);
    }
    if ctx.shard % 16 == 9 {
        let cs = rng.next();
        flood_twin(ctx, &mut rep, cs);
    }
    let (cases, blocks) = if ctx.thorough() { (5, 12) } else { (1, 8) };
    for _ in 0..cases {
        let cs = rng.next();
        twin_case(ctx, &mut rep, cs, blocks);
    }
    rep.set_add("networks", net);
    let _ = Resp::Timeout;
    rep
}
