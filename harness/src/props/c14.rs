//! C14 — the storage encoding is lossless, self-delimiting and order-preserving; JSON round trips.

use std::collections::HashMap;
use std::fmt::Debug;

use alloy::primitives::{Address, Bytes, FixedBytes, Uint, U256};
use brc20_prog::types::{Base64Bytes, EthCall, GetLogsFilter, PrecompileData, RawBytes};
use brc20_prog::verif::*;
use revm::bytecode::Bytecode;
use serde::de::DeserializeOwned;
use serde::Serialize;
use serde_json::json;

use crate::report::{canon_string, Spec, WorkerReport};
use crate::rng::Rng;
use crate::WorkerCtx;

pub fn spec() -> Spec {
    Spec {
        prop: "C14",
        level: "exploration",
        rule: "Laws evaluated on generated values of every persisted/served type (boundary-biased): decode(encode(v)) == v, consumed == produced length, decode(encode(a)||encode(b)) yields a then b, cmp(a,b) == cmp(encode(a),encode(b)) for numeric/composite keys (all pairs of a boundary set + random pairs), to_json(from_json(to_json(v))) == to_json(v). Generated values respect what the module itself can produce (constant legacy fields, chain id of the configuration). Scale block (one shard in four): traces with 255..70 000 frames (wide, 1023 deep, bushy), 255..66 000 logs / transaction hashes / list elements, byte strings and strings of 255 B..16 MiB. Non-trivial = value with >=1 non-default field; distinct by (type, shape class).",
        assumptions: vec!["values are restricted to those the module's own constructors can produce (e.g. receipts always have type 0); arbitrary byte strings are not claimed to decode".into()],
        exhaustive: false,
        min_nontrivial: 2,
    }
}

struct G<'a> {
    r: &'a mut Rng,
}

impl<'a> G<'a> {
    fn u64b(&mut self) -> u64 {
        match self.r.below(12) {
            0 => 0,
            1 => 1,
            2 => u64::MAX,
            3 => u64::MAX - 1,
            4 => 1 << 32,
            5 => (1 << 32) - 1,
            6 => 255,
            7 => 256,
            8 => 1 << 63,
            _ => {
                let bits = self.r.range(1, 64);
                self.r.next() >> (64 - bits)
            }
        }
    }
    fn uint<const B: usize, const L: usize>(&mut self) -> Uint<B, L> {
        let mut limbs = [0u64; L];
        match self.r.below(6) {
            0 => {}
            1 => {
                for l in limbs.iter_mut() {
                    *l = u64::MAX;
                }
            }
            2 => limbs[0] = self.u64b(),
            3 => limbs[L - 1] = self.u64b(),
            _ => {
                for l in limbs.iter_mut() {
                    *l = if self.r.chance(1, 3) { 0 } else { self.u64b() };
                }
            }
        }
        // mask to BITS
        let extra = L * 64 - B;
        if extra > 0 {
            limbs[L - 1] &= u64::MAX >> extra;
        }
        Uint::from_limbs(limbs)
    }
    fn bytes(&mut self) -> Vec<u8> {
        let n = match self.r.below(10) {
            0 => 0,
            1 => 1,
            2 => 31,
            3 => 32,
            4 => 33,
            5 => 65536,
            6 => 255,
            _ => self.r.below(200) as usize,
        };
        match self.r.below(4) {
            0 => vec![0u8; n],
            1 => vec![0xff; n],
            _ => self.r.bytes(n),
        }
    }
    fn small_bytes(&mut self) -> Vec<u8> {
        let n = self.r.below(70) as usize;
        self.r.bytes(n)
    }
    fn addr(&mut self) -> AddressED {
        let a: [u8; 20] = match self.r.below(5) {
            0 => [0u8; 20],
            1 => [0xff; 20],
            _ => {
                let b = self.r.bytes(20);
                b.try_into().unwrap()
            }
        };
        AddressED::new(Address::new(a))
    }
    fn b256(&mut self) -> B256ED {
        let a: [u8; 32] = match self.r.below(5) {
            0 => [0u8; 32],
            1 => [0xff; 32],
            _ => self.r.b32(),
        };
        a.into()
    }
    fn b2048(&mut self) -> B2048ED {
        let mut a = [0u8; 256];
        if self.r.chance(2, 3) {
            a.copy_from_slice(&self.r.bytes(256));
        }
        FixedBytesED::<256>::new(FixedBytes::<256>::from(a))
    }
    fn string(&mut self) -> String {
        match self.r.below(6) {
            0 => String::new(),
            1 => "ASCII-id_0123i0".to_string(),
            2 => "ünï©ødé 🚀 string".to_string(),
            3 => {
                let n = self.r.below(3000) as usize;
                "a".repeat(n)
            }
            _ => {
                let n = self.r.below(40) as usize;
                hex::encode(self.r.bytes(n))
            }
        }
    }
    fn opt<T>(&mut self, f: impl FnOnce(&mut Self) -> T) -> Option<T> {
        if self.r.chance(1, 3) {
            None
        } else {
            Some(f(self))
        }
    }
    fn log(&mut self) -> LogED {
        let nt = self.r.below(5);
        LogED {
            address: self.addr(),
            topics: (0..nt).map(|_| self.b256()).collect(),
            data: self.bytes().into(),
            transaction_index: self.u64b().into(),
            transaction_hash: self.b256(),
            block_hash: self.b256(),
            block_number: self.u64b().into(),
            log_index: self.u64b().into(),
        }
    }
    fn tx(&mut self, chain_id: u64) -> TxED {
        TxED {
            hash: self.b256(),
            nonce: self.u64b().into(),
            block_hash: self.b256(),
            block_number: self.opt(|g| g.u64b().into()),
            transaction_index: self.opt(|g| g.u64b().into()),
            from: self.addr(),
            to: self.opt(|g| g.addr()),
            value: self.u64b().into(),
            gas: self.u64b().into(),
            gas_price: self.u64b().into(),
            input: self.bytes().into(),
            v: (self.r.below(256) as u8).into(),
            r: UintED::new(self.uint::<256, 4>()),
            s: UintED::new(self.uint::<256, 4>()),
            chain_id: chain_id.into(),
            tx_type: 0u8.into(),
            inscription_id: self.opt(|g| g.string()),
        }
    }
    fn receipt(&mut self) -> TxReceiptED {
        let nl = self.r.below(4);
        TxReceiptED {
            status: (self.r.below(2) as u8).into(),
            logs: (0..nl).map(|_| self.log()).collect(),
            gas_used: self.u64b().into(),
            from: self.addr(),
            to: self.opt(|g| g.addr()),
            contract_address: self.opt(|g| g.addr()),
            logs_bloom: self.b2048(),
            block_hash: self.b256(),
            block_number: self.u64b().into(),
            transaction_hash: self.b256(),
            transaction_index: self.u64b().into(),
            cumulative_gas_used: self.u64b().into(),
            effective_gas_price: 0u64.into(),
            transaction_type: 0u8.into(),
        }
    }
    fn trace(&mut self, depth: u32) -> TraceED {
        let nc = if depth == 0 { 0 } else { self.r.below(3) };
        TraceED {
            tx_type: self.r.pick(&["CALL", "CREATE", "STATICCALL", "DELEGATECALL", "CREATE2", ""]).to_string(),
            from: self.addr(),
            to: self.opt(|g| g.addr()),
            calls: (0..nc).map(|_| self.trace(depth - 1)).collect(),
            gas: UintED::new(self.uint::<256, 4>()),
            gas_used: UintED::new(self.uint::<256, 4>()),
            input: self.small_bytes().into(),
            output: self.small_bytes().into(),
            value: UintED::new(self.uint::<256, 4>()),
            error: self.opt(|g| g.string()),
            revert_reason: self.opt(|g| g.string()),
        }
    }
    fn account(&mut self) -> AccountInfoED {
        AccountInfoED { balance: UintED::new(self.uint::<256, 4>()), nonce: self.u64b().into(), code_hash: self.b256() }
    }
    fn bytecode(&mut self) -> BytecodeED {
        match self.r.below(5) {
            0 => Bytecode::new().into(),
            1 => {
                // EIP-7702 shaped: ef0100 || address
                let mut v = vec![0xef, 0x01, 0x00];
                v.extend_from_slice(&self.r.bytes(20));
                Bytecode::new_raw_checked(Bytes::from(v)).map(|b| b.into()).unwrap_or_else(|_| Bytecode::new().into())
            }
            _ => {
                let mut v = self.bytes();
                if v.first() == Some(&0xef) {
                    v[0] = 0x60;
                }
                Bytecode::new_raw(Bytes::from(v)).into()
            }
        }
    }
    fn block(&mut self, full: bool, chain_id: u64) -> BlockResponseED {
        let n = self.r.below(5);
        // construct through decode of an encoded legacy row is not possible from outside; fill the
        // same constants BlockResponseED::new uses
        let hashes: Vec<B256ED> = (0..n).map(|_| self.b256()).collect();
        let mut b = BlockResponseED {
            difficulty: 0u64.into(),
            gas_limit: (4u64 * 1024 * 1024 * 12000).into(),
            gas_used: self.u64b().into(),
            hash: self.b256(),
            logs_bloom: self.b2048(),
            nonce: self.u64b().into(),
            number: self.u64b().into(),
            timestamp: self.u64b().into(),
            mine_timestamp: UintED::new(self.uint::<128, 2>()),
            transactions: either::Either::Left(hashes),
            base_fee_per_gas: 0u64.into(),
            transactions_root: self.b256(),
            uncles: vec![],
            withdrawals: vec![],
            withdrawals_root: [0u8; 32].into(),
            total_difficulty: 0u64.into(),
            parent_beacon_block_root: [0u8; 32].into(),
            parent_hash: self.b256(),
            receipts_root: [0u8; 32].into(),
            sha3_uncles: [0u8; 32].into(),
            size: 0u64.into(),
            state_root: [0u8; 32].into(),
            miner: [0u8; 20].into(),
            mix_hash: [0u8; 32].into(),
            excess_blob_gas: 0u64.into(),
            extra_data: [0u8; 32].into(),
            blob_gas_used: 0u64.into(),
        };
        if full {
            b.transactions = either::Either::Right((0..n).map(|_| self.tx(chain_id)).collect());
        }
        b
    }
}

struct Laws<'a> {
    rep: &'a mut WorkerReport,
    seed: u64,
}

impl<'a> Laws<'a> {
    fn fail(&mut self, sig: &str, what: String, mut detail: serde_json::Value) {
        // values of the scale block are megabytes long: keep the witness readable
        if let Some(o) = detail.as_object_mut() {
            for v in o.values_mut() {
                if let Some(t) = v.as_str() {
                    if t.len() > 20_000 {
                        *v = json!(format!("{}… ({} characters)", &t[..t.char_indices().nth(20_000).map(|(i, _)| i).unwrap_or(t.len())], t.len()));
                    }
                }
            }
        }
        super::common::violation(self.rep, "C14", self.seed, sig, what, detail);
    }

    fn codec<T: Encode + Decode + PartialEq + Debug>(&mut self, ty: &str, shape: &str, a: &T, b: &T, nontrivial: bool) {
        self.rep.evaluations += 1;
        if nontrivial {
            self.rep.nontrivial(format!("{}:{}", ty, shape));
        }
        self.rep.count(&format!("codec:{}", ty), 1);
        crate::crashlabel::set(&format!("{} decode(encode(v)) / concatenation, shape {}", ty, shape));
        let ea = a.encode_vec();
        let res = std::panic::catch_unwind(std::panic::AssertUnwindSafe(|| T::decode(&ea, 0)));
        match res {
            Ok(Ok((d, n))) => {
                if &d != a {
                    self.fail(&format!("roundtrip:{}", ty), format!("decode(encode(v)) != v for {}", ty), json!({"type": ty, "value": format!("{:?}", a), "decoded": format!("{:?}", d), "bytes": hex::encode(&ea)}));
                    return;
                }
                if n != ea.len() {
                    self.fail(&format!("length:{}", ty), format!("decode consumed {} of {} produced bytes for {}", n, ea.len(), ty), json!({"type": ty, "value": format!("{:?}", a)}));
                    return;
                }
            }
            Ok(Err(e)) => {
                self.fail(&format!("decode-error:{}", ty), format!("decode(encode(v)) failed for {}: {}", ty, e), json!({"type": ty, "value": format!("{:?}", a), "bytes": hex::encode(&ea)}));
                return;
            }
            Err(_) => {
                self.fail(&format!("decode-panic:{}", ty), format!("decode(encode(v)) panicked for {}", ty), json!({"type": ty, "value": format!("{:?}", a), "bytes": hex::encode(&ea)}));
                return;
            }
        }
        // self-delimiting: a || b
        let mut buf = ea.clone();
        b.encode(&mut buf);
        let res = std::panic::catch_unwind(std::panic::AssertUnwindSafe(|| {
            let (x, off) = T::decode(&buf, 0)?;
            let (y, off2) = T::decode(&buf, off)?;
            Ok::<_, Box<dyn std::error::Error>>((x, y, off2))
        }));
        match res {
            Ok(Ok((x, y, off2))) => {
                if &x != a || &y != b || off2 != buf.len() {
                    self.fail(&format!("concat:{}", ty), format!("decode(encode(a)||encode(b)) does not yield a then b for {}", ty), json!({"type": ty, "a": format!("{:?}", a), "b": format!("{:?}", b)}));
                }
            }
            _ => self.fail(&format!("concat-error:{}", ty), format!("decoding two concatenated {} failed", ty), json!({"type": ty, "a": format!("{:?}", a), "b": format!("{:?}", b)})),
        }
    }

    fn order<T: Encode + Ord + Debug>(&mut self, ty: &str, a: &T, b: &T) {
        self.rep.evaluations += 1;
        self.rep.count(&format!("order:{}", ty), 1);
        let (ea, eb) = (a.encode_vec(), b.encode_vec());
        if a.cmp(b) != ea.cmp(&eb) {
            self.fail(&format!("order:{}", ty), format!("keys of type {} compare differently in encoded form", ty), json!({"type": ty, "a": format!("{:?}", a), "b": format!("{:?}", b), "ea": hex::encode(ea), "eb": hex::encode(eb)}));
        } else if a != b {
            self.rep.nontrivial(format!("order:{}:{}", ty, if a < b { "lt" } else { "gt" }));
        }
    }

    fn json_rt<T: Serialize + DeserializeOwned>(&mut self, ty: &str, shape: &str, v: &T) {
        self.rep.evaluations += 1;
        self.rep.count(&format!("json:{}", ty), 1);
        let j1 = match serde_json::to_value(v) {
            Ok(j) => j,
            Err(e) => {
                self.fail(&format!("json-ser:{}", ty), format!("serialising {} failed: {}", ty, e), json!({"type": ty}));
                return;
            }
        };
        let back: Result<T, _> = serde_json::from_value(j1.clone());
        match back {
            Ok(b) => {
                let j2 = serde_json::to_value(&b).unwrap_or(serde_json::Value::Null);
                if canon_string(&j1) != canon_string(&j2) {
                    self.fail(&format!("json-roundtrip:{}", ty), format!("to_json(from_json(to_json(v))) != to_json(v) for {}", ty), json!({"type": ty, "first": j1, "second": j2}));
                } else {
                    self.rep.nontrivial(format!("json:{}:{}", ty, shape));
                }
            }
            Err(e) => self.fail(&format!("json-de:{}", ty), format!("the JSON form of {} does not deserialise: {}", ty, e), json!({"type": ty, "json": j1})),
        }
    }
}

/// Scale block: collections and byte strings beyond one-byte and two-byte length boundaries and
/// traces with thousands of frames (wide, deep, bushy).
fn scale_values(laws: &mut Laws, g: &mut G, chain_id: u64) {
    fn wide(g: &mut G, n: usize) -> TraceED {
        let mut t = g.trace(0);
        t.calls = (0..n).map(|_| g.trace(0)).collect();
        t
    }
    fn deep(g: &mut G, n: usize) -> TraceED {
        let mut t = g.trace(0);
        for _ in 0..n {
            let mut up = g.trace(0);
            up.calls = vec![t];
            t = up;
        }
        t
    }
    fn bushy(g: &mut G, depth: u32, fan: usize) -> TraceED {
        let mut t = g.trace(0);
        if depth > 0 {
            t.calls = (0..fan).map(|_| bushy(g, depth - 1, fan)).collect();
        }
        t
    }
    for (name, a) in [("wide-255", wide(g, 255)), ("wide-256", wide(g, 256)), ("wide-1100", wide(g, 1100)), ("wide-70000", wide(g, 70_000)), ("deep-300", deep(g, 300)), ("deep-1023", deep(g, 1023)), ("bushy-4^6", bushy(g, 6, 4))] {
        let b = g.trace(1);
        laws.codec("TraceED", name, &a, &b, true);
    }
    for n in [255usize, 256, 300, 65_535, 65_536, 66_000] {
        let mut a = g.receipt();
        a.logs = (0..n).map(|_| g.log()).collect();
        let b = g.receipt();
        laws.codec("TxReceiptED", &format!("logs{}", n), &a, &b, true);
        let hashes: Vec<B256ED> = (0..n).map(|_| g.b256()).collect();
        let mut blk = g.block(false, chain_id);
        blk.transactions = either::Either::Left(hashes);
        let b = g.block(false, chain_id);
        laws.codec("BlockResponseED", &format!("txs{}", n), &blk, &b, true);
        let v: Vec<Option<Vec<u8>>> = (0..n).map(|i| if i % 7 == 0 { None } else { Some(vec![i as u8; i % 5]) }).collect();
        laws.codec("Vec<Option<Vec<u8>>>", &format!("n{}", n), &v, &vec![None, Some(vec![1u8])], true);
    }
    for n in [255usize, 256, 65_535, 65_536, 70_000, 1_048_576, 16_777_216 + 5] {
        let mut l = g.log();
        l.data = g.r.bytes(n).into();
        let b = g.log();
        laws.codec("LogED", &format!("data{}", n), &l, &b, true);
        let mut t = g.tx(chain_id);
        t.input = g.r.bytes(n).into();
        let b = g.tx(chain_id);
        laws.codec("TxED", &format!("input{}", n), &t, &b, true);
        let s: String = "x".repeat(n);
        laws.codec("String", &format!("len{}", n), &s, &"y".to_string(), true);
    }
}

pub fn worker(ctx: &WorkerCtx) -> WorkerReport {
    let (net, traces) = super::common::net_for_shard(ctx.shard);
    crate::setup_env(net, traces);
    let chain_id = crate::rpc::chain_id_for(net);
    let mut rep = WorkerReport::default();
    let mut rng = ctx.rng();
    let rounds = if ctx.thorough() { 12_000 } else { 700 };
    {
        let mut laws = Laws { rep: &mut rep, seed: ctx.seed };
        let mut g = G { r: &mut rng };
        if ctx.shard % 4 == 1 {
            scale_values(&mut laws, &mut g, chain_id);
        }
        for i in 0..rounds {
            let nt = |b: bool| if b { "nonzero" } else { "default" };
            let (a, b) = (g.u64b(), g.u64b());
            laws.codec("u64", nt(a != 0), &a, &b, a != 0);
            laws.order("u64", &a, &b);
            let (a, b) = (g.u64b() as u32, g.u64b() as u32);
            laws.codec("u32", nt(a != 0), &a, &b, a != 0);
            let (a, b) = (g.u64b() as u8, g.u64b() as u8);
            laws.codec("u8", nt(a != 0), &a, &b, a != 0);
            let (a, b): (U64ED, U64ED) = (g.u64b().into(), g.u64b().into());
            laws.codec("U64ED", nt(!a.is_zero()), &a, &b, !a.is_zero());
            laws.order("U64ED", &a, &b);
            laws.json_rt("U64ED", nt(!a.is_zero()), &a);
            let (a, b): (U8ED, U8ED) = ((g.u64b() as u8).into(), (g.u64b() as u8).into());
            laws.codec("U8ED", nt(!a.is_zero()), &a, &b, !a.is_zero());
            laws.json_rt("U8ED", "v", &a);
            // composite key (block << 64 | idx)
            let (blk_a, idx_a, blk_b, idx_b) = (g.u64b(), g.u64b(), g.u64b(), g.u64b());
            let ka: U128ED = UintED::new(Uint::<128, 2>::from_limbs([idx_a, blk_a]));
            let kb: U128ED = UintED::new(Uint::<128, 2>::from_limbs([idx_b, if i % 3 == 0 { blk_a } else { blk_b }]));
            laws.codec("U128ED", "composite", &ka, &kb, true);
            laws.order("U128ED", &ka, &kb);
            laws.json_rt("U128ED", "v", &ka);
            let (a, b): (U256ED, U256ED) = (UintED::new(g.uint::<256, 4>()), UintED::new(g.uint::<256, 4>()));
            laws.codec("U256ED", nt(!a.is_zero()), &a, &b, !a.is_zero());
            laws.order("U256ED", &a, &b);
            laws.json_rt("U256ED", nt(!a.is_zero()), &a);
            let (a, b): (U512ED, U512ED) = (UintED::new(g.uint::<512, 8>()), UintED::new(g.uint::<512, 8>()));
            laws.codec("U512ED", nt(!a.is_zero()), &a, &b, !a.is_zero());
            laws.order("U512ED", &a, &b);
            laws.json_rt("U512ED", "v", &a);
            // (address, nonce) composite key: order = lexicographic (address bytes, nonce)
            let (aa, ab) = (g.addr(), if i % 2 == 0 { g.addr() } else { AddressED::new(Address::ZERO) });
            let (na, nb): (U64ED, U64ED) = (g.u64b().into(), g.u64b().into());
            let pa = (aa, na);
            let pb = (if i % 4 == 0 { aa } else { ab }, nb);
            laws.codec("(AddressED,U64ED)", "pair", &pa, &pb, true);
            {
                laws.rep.evaluations += 1;
                let va = (pa.0.address.0, pa.1);
                let vb = (pb.0.address.0, pb.1);
                if va.cmp(&vb) != pa.encode_vec().cmp(&pb.encode_vec()) {
                    laws.fail("order:(AddressED,U64ED)", "pending-pool keys compare differently in encoded form".into(), json!({"a": format!("{:?}", pa), "b": format!("{:?}", pb)}));
                } else if va != vb {
                    laws.rep.nontrivial("order:(AddressED,U64ED)");
                }
            }
            laws.codec("AddressED", "v", &aa, &ab, true);
            laws.json_rt("AddressED", "v", &aa);
            let (a, b) = (g.b256(), g.b256());
            laws.codec("B256ED", "v", &a, &b, true);
            laws.json_rt("B256ED", "v", &a);
            let (a, b) = (g.b2048(), g.b2048());
            laws.codec("B2048ED", "v", &a, &b, true);
            laws.json_rt("B2048ED", "v", &a);
            let (a, b): (BytesED, BytesED) = (g.bytes().into(), g.bytes().into());
            laws.codec("BytesED", &format!("len{}", a.bytes.len().min(3)), &a, &b, !a.bytes.is_empty());
            laws.json_rt("BytesED", &format!("len{}", a.bytes.len().min(3)), &a);
            let (a, b) = (g.string(), g.string());
            laws.codec("String", nt(!a.is_empty()), &a, &b, !a.is_empty());
            let (a, b) = (g.opt(|g| g.u64b()), g.opt(|g| g.u64b()));
            laws.codec("Option<u64>", if a.is_some() { "some" } else { "none" }, &a, &b, true);
            let (a, b) = (g.opt(|g| g.string()), g.opt(|g| g.string()));
            laws.codec("Option<String>", if a.is_some() { "some" } else { "none" }, &a, &b, true);
            let a: Vec<Option<Vec<u8>>> = (0..g.r.below(4)).map(|_| g.opt(|g| g.small_bytes())).collect();
            let b: Vec<Option<Vec<u8>>> = (0..g.r.below(4)).map(|_| g.opt(|g| g.small_bytes())).collect();
            laws.codec("Vec<Option<Vec<u8>>>", &format!("n{}", a.len()), &a, &b, !a.is_empty());
            let (a, b) = (g.account(), g.account());
            laws.codec("AccountInfoED", "v", &a, &b, true);
            laws.json_rt("AccountInfoED", "v", &a);
            let (a, b) = (g.bytecode(), g.bytecode());
            laws.codec("BytecodeED", if a.bytecode.is_eip7702() { "eip7702" } else if a.bytecode.is_empty() { "empty" } else { "legacy" }, &a, &b, true);
            laws.json_rt("BytecodeED", if a.bytecode.is_eip7702() { "eip7702" } else { "legacy" }, &a);
            let (a, b) = (g.log(), g.log());
            laws.codec("LogED", &format!("topics{}", a.topics.len()), &a, &b, true);
            laws.json_rt("LogED", &format!("topics{}", a.topics.len()), &a);
            let (a, b) = (g.tx(chain_id), g.tx(chain_id));
            let shape = format!("to{}bn{}iid{}", a.to.is_some(), a.block_number.is_some(), a.inscription_id.is_some());
            laws.codec("TxED", &shape, &a, &b, true);
            laws.json_rt("TxED", &shape, &a);
            let (a, b) = (g.receipt(), g.receipt());
            let shape = format!("logs{}ca{}", a.logs.len(), a.contract_address.is_some());
            laws.codec("TxReceiptED", &shape, &a, &b, true);
            laws.json_rt("TxReceiptED", &shape, &a);
            if i % 4 == 0 {
                let (a, b) = (g.trace(3), g.trace(2));
                let shape = format!("calls{}err{}", a.calls.len(), a.error.is_some());
                laws.codec("TraceED", &shape, &a, &b, true);
                laws.json_rt("TraceED", &shape, &a);
                let (a, b) = (g.block(false, chain_id), g.block(false, chain_id));
                let n = a.transactions.as_ref().left().map(|v| v.len()).unwrap_or(0);
                laws.codec("BlockResponseED", &format!("txs{}", n), &a, &b, true);
                laws.json_rt("BlockResponseED(hashes)", &format!("txs{}", n), &a);
                let f = g.block(true, chain_id);
                let n = f.transactions.as_ref().right().map(|v| v.len()).unwrap_or(0);
                laws.json_rt("BlockResponseED(full)", &format!("txs{}", n), &f);
                // histories
                let mut ha = BlockHistoryCacheData::<U256ED>::new(g.opt(|g| UintED::new(g.uint::<256, 4>())));
                let mut blk = 0u64;
                for _ in 0..g.r.below(12) {
                    blk += g.r.range(0, 4);
                    if g.r.chance(1, 4) {
                        ha.unset(blk);
                    } else {
                        ha.set(blk, UintED::new(g.uint::<256, 4>()));
                    }
                }
                let hb = BlockHistoryCacheData::<U256ED>::new(None);
                let ea = ha.encode_vec();
                laws.rep.evaluations += 1;
                match BlockHistoryCacheData::<U256ED>::decode(&ea, 0) {
                    Ok((d, n)) => {
                        if d.encode_vec() != ea || n != ea.len() || d.latest() != ha.latest() {
                            laws.fail("roundtrip:BlockHistoryCacheData", "history does not round-trip".into(), json!({"bytes": hex::encode(&ea)}));
                        } else {
                            laws.rep.nontrivial(format!("BlockHistoryCacheData:len{}", ea.len() / 41));
                        }
                        let mut buf = ea.clone();
                        hb.encode(&mut buf);
                        if let Ok((_, off)) = BlockHistoryCacheData::<U256ED>::decode(&buf, 0) {
                            if off != ea.len() {
                                laws.fail("concat:BlockHistoryCacheData", "history is not self-delimiting".into(), json!({}));
                            }
                        }
                    }
                    Err(e) => laws.fail("decode-error:BlockHistoryCacheData", format!("history decode failed: {}", e), json!({"bytes": hex::encode(&ea)})),
                }
                // raw block built from a block + its transactions + receipts
                let nb = g.r.below(4) as usize;
                let txs: Vec<TxED> = (0..nb).map(|_| g.tx(chain_id)).collect();
                let rcs: Vec<TxReceiptED> = (0..nb).map(|_| g.receipt()).collect();
                let raw = RawBlock::new(g.block(false, chain_id), txs, rcs);
                let raw2 = RawBlock::new(g.block(false, chain_id), vec![], vec![]);
                laws.codec("RawBlock", &format!("txs{}", nb), &raw, &raw2, true);
            }
            // request-side API types (JSON law)
            let call = EthCall { from: g.opt(|g| g.addr()), to: g.opt(|g| g.addr()), data: g.opt(|g| RawBytes::from_bytes(Bytes::from(g.small_bytes()))) };
            laws.json_rt("EthCall", &format!("f{}t{}d{}", call.from.is_some(), call.to.is_some(), call.data.is_some()), &call);
            if i % 8 == 0 {
                // the `input` alias must deserialise to the same thing
                let j = json!({"from": null, "to": "0x00000000000000000000000000000000000000aa", "input": "0x1234"});
                laws.rep.evaluations += 1;
                match serde_json::from_value::<EthCall>(j) {
                    Ok(c) if c.data.as_ref().map(|d| d.to_string()) == Some("0x1234".to_string()) => {}
                    other => laws.fail("json-alias:EthCall", "EthCall does not accept the `input` alias".into(), json!({"got": format!("{:?}", other.map(|c| c.data))})),
                }
            }
            let topics: Option<Vec<serde_either::SingleOrVec<Option<B256ED>>>> = g.opt(|g| {
                (0..g.r.below(5))
                    .map(|_| {
                        if g.r.chance(1, 2) {
                            serde_either::SingleOrVec::Single(g.opt(|g| g.b256()))
                        } else {
                            serde_either::SingleOrVec::Vec((0..g.r.range(2, 4)).map(|_| g.opt(|g| g.b256())).collect())
                        }
                    })
                    .collect()
            });
            let filt = GetLogsFilter { from_block: g.opt(|g| format!("0x{:x}", g.u64b())), to_block: g.opt(|_| "latest".to_string()), address: g.opt(|g| g.addr()), topics };
            laws.json_rt("GetLogsFilter", &format!("t{}", filt.topics.as_ref().map(|t| t.len()).unwrap_or(99)), &filt);
            let mut hexes = HashMap::new();
            for _ in 0..g.r.below(3) {
                hexes.insert(g.b256(), RawBytes::from_bytes(Bytes::from(g.small_bytes())));
            }
            let pd = PrecompileData { op_return_tx_ids: (0..g.r.below(3)).map(|_| g.b256()).collect(), bitcoin_tx_hexes: hexes };
            laws.json_rt("PrecompileData", &format!("ids{}hexes{}", pd.op_return_tx_ids.len(), pd.bitcoin_tx_hexes.len()), &pd);
            let b64 = if g.r.chance(1, 5) { Base64Bytes::empty() } else { Base64Bytes::new(g.string()) };
            laws.json_rt("Base64Bytes", "v", &b64);
            let rb = if g.r.chance(1, 5) { RawBytes::empty() } else { RawBytes::new(g.string()) };
            laws.json_rt("RawBytes", "v", &rb);
        }
        // order law on all pairs of a boundary set
        let bs: Vec<u64> = vec![0, 1, 2, 255, 256, 257, 65535, 65536, (1 << 32) - 1, 1 << 32, (1 << 32) + 1, (1 << 56) - 1, 1 << 56, u64::MAX - 1, u64::MAX];
        for a in &bs {
            for b in &bs {
                laws.order("u64", a, b);
                let (x, y): (U64ED, U64ED) = ((*a).into(), (*b).into());
                laws.order("U64ED", &x, &y);
                for (ia, ib) in [(0u64, 0u64), (0, 1), (1, 0), (u64::MAX, 0), (0, u64::MAX)] {
                    let ka: U128ED = UintED::new(Uint::<128, 2>::from_limbs([ia, *a]));
                    let kb: U128ED = UintED::new(Uint::<128, 2>::from_limbs([ib, *b]));
                    laws.order("U128ED", &ka, &kb);
                }
            }
        }
        let _ = U256::ZERO;
    }
    rep.sample(json!({"types": rep.counters.keys().cloned().collect::<Vec<_>>(), "rounds": rounds, "network": net}));
    rep
}
