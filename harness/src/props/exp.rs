//! Scratch experiments (not a registered check).
use serde_json::json;
use crate::hist::{self, Ctx, Driver, Enc, Op, Signer};
use crate::rpc::Inst;
use crate::asm;

pub fn run() {
    crate::setup_env("regtest", true);
    let dir = crate::rpc::fresh_dir("exp");
    let mut d = Driver::new(Inst::open(&dir).unwrap());
    d.exec(Op::Init { hash: hist::ZERO_HASH.into(), ts: 1, height: 0 });
    let pk = "5120aaaaaaaaaaaaaaaaaaaaaaaaaaaaaaaaaaaaaaaaaaaaaaaaaaaaaaaaaaaaaaaa".to_string();
    let h1 = hist::bh(0xe1);
    let r = d.exec(Op::Deploy { pk, data: hist::hx(&asm::tool_init()), enc: Enc::Hex, ctx: Ctx { ts: 2, hash: h1.clone(), idx: 0 }, iid: "t".into(), len: 100_000, txid: hist::ZERO_HASH.into() });
    let tool = hist::created_address(&r).unwrap();
    d.exec(Op::Finalise { ts: 2, hash: h1, count: 1 });
    let s = Signer::new(9);
    let chain = crate::rpc::chain_id_for("regtest");
    let t = hist::parse_addr(&tool);
    let h2 = hist::bh(0xe2);
    let raw1 = s.sign(Some(chain), 1, Some(t), &asm::tool_call(asm::OP_PROBE, &[asm::word_u64(0x1000), asm::word_u64(1), asm::word_u64(0)], &[]));
    let txid = format!("0x{:064x}", 0x7a7a7a7au64);
    println!("park: {}", d.exec(Op::Transact { raw: format!("0x{}", raw1), enc: Enc::Hex, ctx: Ctx { ts: 3, hash: h2.clone(), idx: 0 }, iid: "p1".into(), len: 100_000, txid: txid.clone() }).short());
    d.exec(Op::Finalise { ts: 3, hash: h2, count: 0 });
    if std::env::var("EXP_COMMIT").is_ok() { println!("commit {}", d.exec(Op::Commit).short()); }
    let h3 = hist::bh(0xe3);
    let raw0 = s.sign(Some(chain), 0, Some(t), &asm::tool_call(asm::OP_INC, &[asm::word_u64(2)], &[]));
    let r = d.exec(Op::Transact { raw: format!("0x{}", raw0), enc: Enc::Hex, ctx: Ctx { ts: 4, hash: h3.clone(), idx: 0 }, iid: "p0".into(), len: 100_000, txid: hist::ZERO_HASH.into() });
    println!("drain: {} receipts", hist::receipts_in(&r).len());
    d.exec(Op::Finalise { ts: 4, hash: h3, count: 2 });
    for k in [10u64, 11, 12] {
        println!("slot {:x} = {}", 0x1000 + k, d.inst.call("eth_getStorageAt", json!([tool, format!("0x{:x}", 0x1000 + k)])).short());
    }
    crate::rpc::remove_dir(&crate::rpc::process_work_dir("exp"));
}
