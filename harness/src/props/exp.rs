//! Scratch experiments (not a registered check).
use serde_json::json;
use crate::hist::{self, Driver, Op};
use crate::rpc::Inst;

pub fn run() {
    let net = std::env::var("EXP_NET").unwrap_or("signet".into());
    let n: u64 = std::env::var("EXP_N").ok().and_then(|x| x.parse().ok()).unwrap_or(10_000);
    crate::setup_env(&net, true);
    let dir = crate::rpc::fresh_dir("exp");
    let mut d = Driver::new(Inst::open(&dir).unwrap());
    let t = std::time::Instant::now();
    let mut left = n;
    while left > 0 {
        let k = left.min(50_000);
        let r = d.exec(Op::Mine { n: k, ts: 7 });
        if !r.is_ok() { println!("mine: {}", r.short()); break; }
        left -= k;
        d.exec(Op::Commit);
    }
    println!("mined {} in {:?}; height {}", n, t.elapsed(), d.inst.call("eth_blockNumber", json!([])).short());
    let r = d.exec(Op::Init { hash: hist::ZERO_HASH.into(), ts: 9, height: n });
    println!("init at {}: {}", n, r.short());
    println!("dir size: {:?}", std::process::Command::new("du").arg("-sh").arg(&dir).output().map(|o| String::from_utf8_lossy(&o.stdout).to_string()));
    crate::rpc::remove_dir(&crate::rpc::process_work_dir("exp"));
}
