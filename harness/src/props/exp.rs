//! Scratch experiments (not a registered check).
use serde_json::json;
use crate::hist::{self, Ctx, Driver, Enc, Op, Signer};
use crate::rpc::Inst;
use crate::asm;

pub fn run() {
    let net = std::env::var("EXP_NET").unwrap_or("regtest".into());
    let commit = std::env::var("EXP_COMMIT").is_ok();
    crate::setup_env(&net, true);
    let dir = crate::rpc::fresh_dir("exp");
    let mut d = Driver::new(Inst::open(&dir).unwrap());
    d.exec(Op::Init { hash: hist::ZERO_HASH.into(), ts: 1, height: 0 });
    let s = Signer::new(77);
    let chain = crate::rpc::chain_id_for(&net);
    let h1 = hist::bh(0xe1);
    let mut data = asm::tool_init();
    data.push(1);
    let raw = s.sign(Some(chain), 3, None, &data);
    let r = d.exec(Op::Transact { raw: format!("0x{}", raw), enc: Enc::Hex, ctx: Ctx { ts: 5, hash: h1.clone(), idx: 0 }, iid: "p1i0".into(), len: 200_000, txid: hist::ZERO_HASH.into() });
    println!("park nonce 3 in block 1: {}", r.short());
    d.exec(Op::Finalise { ts: 5, hash: h1, count: 0 });
    d.exec(Op::Mine { n: 1, ts: 6 });
    if commit {
        println!("commit: {}", d.exec(Op::Commit).short());
    }
    println!("pool after block 2: {}", d.inst.call("txpool_contentFrom", json!([hist::addr_hex(&s.addr)])).short());
    let h3 = hist::bh(0xe3);
    if std::env::var("EXP_SAME").is_err() {
        data.push(2);
    }
    let raw2 = s.sign(Some(chain), 3, None, &data);
    let r = d.exec(Op::Transact { raw: format!("0x{}", raw2), enc: Enc::Hex, ctx: Ctx { ts: 9, hash: h3.clone(), idx: 0 }, iid: "p2i0".into(), len: 200_000, txid: hist::ZERO_HASH.into() });
    println!("replace nonce 3 in open block 3: {}", r.short());
    println!("pool mid-block: {}", d.inst.call("txpool_contentFrom", json!([hist::addr_hex(&s.addr)])).short());
    println!("reorg(2): {}", d.exec(Op::Reorg { n: 2 }).short());
    println!("pool after reorg(2): {}", d.inst.call("txpool_contentFrom", json!([hist::addr_hex(&s.addr)])).short());
    crate::rpc::remove_dir(&crate::rpc::process_work_dir("exp"));
}
