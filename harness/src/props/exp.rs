//! Scratch experiments (not a registered check).
use serde_json::json;
use crate::hist::{self, Driver, Op};
use crate::rpc::Inst;

pub fn run() {
    let net = std::env::var("EXP_NET").unwrap_or("bitcoin".into());
    let base: u64 = std::env::var("EXP_BASE").ok().and_then(|x| x.parse().ok()).unwrap_or(253);
    crate::setup_env(&net, false);
    let dir = crate::rpc::fresh_dir("exp");
    let mut d = Driver::new(Inst::open(&dir).unwrap());
    d.mine_to(base);
    println!("init at {}: {}", base, d.exec(Op::Init { hash: hist::bh(1), ts: 5, height: base }).short());
    println!("code at controller: {}", d.inst.call("eth_getCode", json!([hist::CONTROLLER])).short().len());
    d.exec(Op::Mine { n: 3, ts: 6 });
    let h = d.next_height();
    println!("init again at {}: {}", h, d.exec(Op::Init { hash: hist::bh(2), ts: 9, height: h }).short());
    println!("height now {}", d.inst.call("eth_blockNumber", json!([])).short());
    println!("init again same hash at {}: {}", base, d.exec(Op::Init { hash: hist::bh(1), ts: 5, height: base }).short());
    crate::rpc::remove_dir(&crate::rpc::process_work_dir("exp"));
}
