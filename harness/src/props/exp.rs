//! Scratch experiments (not a registered check).
use serde_json::json;
use crate::hist::{self, Ctx, Driver, Enc, Op, Target};
use crate::rpc::Inst;
use crate::asm;

pub fn run() {
    crate::setup_env("regtest", true);
    let dir = crate::rpc::fresh_dir("exp");
    let mut d = Driver::new(Inst::open(&dir).unwrap());
    d.exec(Op::Init { hash: hist::ZERO_HASH.into(), ts: 1, height: 0 });
    let pk1 = "5120a1a1a1a1a1a1a1a1a1a1a1a1a1a1a1a1a1a1a1a1a1a1a1a1a1a1a1a1a1a1a1".to_string();
    let pk2 = "5120a2a2a2a2a2a2a2a2a2a2a2a2a2a2a2a2a2a2a2a2a2a2a2a2a2a2a2a2a2a2a2".to_string();
    let a2 = hist::pk_address(&pk2);
    let h = crate::hist::bh((0xe1u64) as u64);
    let mut i = 0u64;
    let mut tx = |d: &mut Driver, name: &str, op: Op| {
        let r = d.exec(op);
        let rc = hist::receipts_in(&r);
        println!("{:28} {}", name, rc.first().map(|x| format!("status={} gas={}", x["status"], x["gasUsed"])).unwrap_or(r.short()));
    };
    let c = |i: &mut u64| { let v = *i; *i += 1; Ctx { ts: 5, hash: h.clone(), idx: v } };
    tx(&mut d, "deposit pk1 100", Op::Deposit { pk: pk1.clone(), ticker: "ORDI".into(), amount: "0x64".into(), ctx: c(&mut i), iid: "e1".into() });
    let call = |pk: &str, data: Vec<u8>, ctx: Ctx, iid: &str, to: &str| Op::Call { pk: pk.to_string(), target: Target::Addr(to.to_string()), data: Some(hist::hx(&data)), enc: Enc::Hex, ctx, iid: iid.into(), len: 1_000_000, txid: hist::ZERO_HASH.into() };
    tx(&mut d, "pk1 controller.transfer 10", call(&pk1, hist::controller_transfer(b"ordi", &a2, 10), c(&mut i), "e2", hist::CONTROLLER));
    {
        let last = d.log.last().unwrap().1.clone();
        let th = hist::receipts_in(&last)[0]["transactionHash"].clone();
        let t = d.inst.call("debug_traceTransaction", json!([th]));
        println!("trace: {}", t.to_json().to_string().chars().take(1500).collect::<String>());
    }
    let ctrl = hist::parse_addr(hist::CONTROLLER);
    tx(&mut d, "pk1 approve(ctrl,50)", call(&pk1, hist::abi_bytes_then_words("approve(bytes,address,uint256)", b"ordi", &[asm::word_addr(&ctrl), asm::word_u64(50)]), c(&mut i), "e2a", hist::CONTROLLER));
    tx(&mut d, "pk1 controller.transfer 10", call(&pk1, hist::controller_transfer(b"ordi", &a2, 10), c(&mut i), "e2b", hist::CONTROLLER));
    // user calls mint on controller
    tx(&mut d, "pk1 controller.mint (adv)", call(&pk1, hist::abi_bytes_then_words("mint(bytes,address,uint256)", b"ordi", &[asm::word_addr(&a2), asm::word_u64(5)]), c(&mut i), "e3", hist::CONTROLLER));
    // token address
    let r = d.inst.call("eth_call", json!([{"to": hist::CONTROLLER, "data": hist::hx(&hist::abi_bytes_then_words("getTickerAddress(bytes)", b"ordi", &[]))}]));
    println!("token {}", r.short());
    let cnt = i; 
    d.exec(Op::Finalise { ts: 5, hash: h.clone(), count: cnt });
    println!("bal1 {}", d.inst.call("brc20_balance", json!({"pkscript": pk1, "ticker": "ordi"})).short());
    println!("bal2 {}", d.inst.call("brc20_balance", json!({"pkscript": pk2, "ticker": "Ordi"})).short());
    let r = d.inst.call("eth_call", json!([{"to": hist::CONTROLLER, "data": hist::hx(&hist::abi_bytes_then_words("getTickerAddress(bytes)", b"ordi", &[]))}]));
    println!("token {}", r.short());
    crate::rpc::remove_dir(&crate::rpc::process_work_dir("exp"));
}
