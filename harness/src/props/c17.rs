//! C17 — eth_call predicts what the same transaction will do.

use serde_json::{json, Value};

use super::c16::Bed;
use super::common::*;
use crate::asm;
use crate::hist::{self, Ctx, Enc, Op, Signer, Target, World};
use crate::report::{Spec, WorkerReport};
use crate::rng::Rng;
use crate::rpc::{self, Resp};
use crate::WorkerCtx;

pub fn spec() -> Spec {
    Spec {
        prop: "C17",
        level: "exploration",
        rule: "Self-consistency differential on one instance at block boundaries: eth_call(from, to, data) is asked, then the transaction with the same sender, target and data is executed next (inscription path: sender derived from the pkscript; signed path: the signer), and (success flag, return data) are compared using the receipt status and debug_traceTransaction output (traces on); for creations the simulated return data must equal eth_getCode of the created contract and the created address must be the one the simulation's nonce implies; eth_callMany of a sequence is compared with the same sequence executed in one block. Programs are state- and nonce-dependent (counter increments returning the new value, conditional reverts, writes returning the old value, factory CREATE/CREATE2 returning child addresses) and run in chain states reached by random histories (after reorgs too). Non-trivial = pair whose result depends on state or nonce; distinct by (program, state digest).",
        assumptions: vec!["code that reads TIMESTAMP, PREVRANDAO, remaining gas or the current txid is excluded, as in the statement".into(),
            "a signed raw transaction addressed to the zero address is a contract creation by the module's own convention (TxInfo::from_raw_transaction; tests/transact.rs deploys that way), so its simulation is eth_call without `to`; pairs that address the zero address as a plain call use the inscription form (brc20_call) only".into()],
        exhaustive: false,
        min_nontrivial: 2,
    }
}

fn sim_result(r: &Resp) -> Option<(bool, String)> {
    match r {
        Resp::Ok(Value::String(s)) => Some((true, s.to_lowercase())),
        Resp::Err { code: 3, data, message } => {
            // "Call failed" = the engine could not run the simulation at all: that predicts failure
            // (all senders used here are plain accounts, so the transaction itself is well-formed)
            let _ = message;
            Some((false, data.as_str().unwrap_or("0x").to_lowercase()))
        }
        _ => None,
    }
}

fn tool_fallback() -> String {
    "0x00000000000000000000000000000000000000aa".to_string()
}

fn one_case(ctx: &WorkerCtx, rep: &mut WorkerReport, case_seed: u64, boundary: bool, traces: bool) {
    let (net, _) = net_for_shard(ctx.shard);
    let mut rng = Rng::new(case_seed);
    // boundary mode: the chain starts a few blocks below the height at which the rule set changes, so
    // that some simulation is made under the old rules for a transaction that runs under the new ones
    let act = prague_height(net);
    let base = if boundary && act > 20 { act - 4 - rng.below(8) } else { 0 };
    let Some(mut bed) = Bed::new_at("C17", traces, base) else {
        rep.inconclusive("test bed setup failed");
        return;
    };
    // reach a random chain state first: the World generator drives the same instance
    let mut w = World::new(case_seed, rpc::chain_id_for(net));
    w.tools.push(bed.tool.clone());
    w.tool_iids.push("bed-tool".into());
    w.batchers.push(bed.batcher.clone());
    w.profile.use_probe = false;
    let pre_blocks = if base > 0 { 1 } else { rng.range(1, 6) };
    let mut rr = rng.fork(3);
    grow(&mut w, &mut bed.d, pre_blocks, CommitPolicy::Random(30), &mut rr);
    if rng.chance(1, 3) && bed.d.height > 3 {
        let n = (bed.d.height - 1) as u64;
        bed.d.exec(Op::Reorg { n });
    }
    // a contract whose answer depends on the block it runs in (NUMBER, BLOCKHASH of the parent)
    let numhash = {
        let (ts, hash) = bed.next_block();
        let r = bed.d.exec(Op::Deploy { pk: bed.pk.clone(), data: hist::hx(&asm::initcode(&asm::numhash_runtime())), enc: Enc::Hex, ctx: Ctx { ts, hash: hash.clone(), idx: 0 }, iid: format!("c17-numhash-{}", case_seed), len: 100_000, txid: hist::ZERO_HASH.into() });
        let n = bed.d.ntx;
        bed.d.exec(Op::Finalise { ts, hash, count: n });
        hist::created_address(&r).unwrap_or_else(|| tool_fallback())
    };
    let envdump = {
        let (ts, hash) = bed.next_block();
        let r = bed.d.exec(Op::Deploy { pk: bed.pk.clone(), data: hist::hx(&asm::initcode(&asm::envdump_runtime())), enc: Enc::Hex, ctx: Ctx { ts, hash: hash.clone(), idx: 0 }, iid: format!("c17-env-{}", case_seed), len: 100_000, txid: hist::ZERO_HASH.into() });
        let n = bed.d.ntx;
        bed.d.exec(Op::Finalise { ts, hash, count: n });
        hist::created_address(&r).unwrap_or_else(|| tool_fallback())
    };
    let sender_pk = bed.pk.clone();
    let sender = hist::addr_hex(&hist::pk_address(&sender_pk));
    let signer = Signer::new(31);
    // a contract whose whole code is CALLER SELFDESTRUCT (since Cancun it survives the call)
    let selfdestructor = {
        let (ts, hash) = bed.next_block();
        let r = bed.d.exec(Op::Deploy { pk: bed.pk.clone(), data: hist::hx(&asm::initcode(&[0x33, 0xff])), enc: Enc::Hex, ctx: Ctx { ts, hash: hash.clone(), idx: 0 }, iid: format!("c17-sd-{}", case_seed), len: 100_000, txid: hist::ZERO_HASH.into() });
        let n = bed.d.ntx;
        bed.d.exec(Op::Finalise { ts, hash, count: n });
        hist::created_address(&r).unwrap_or_else(|| bed.tool.clone())
    };
    let chain = rpc::chain_id_for(net);
    let tool = bed.tool.clone();
    let t20 = hist::parse_addr(&tool);
    let pairs = if ctx.thorough() { 60 } else { 16 };
    let mut uniq = 0u64;
    for i in 0..pairs {
        uniq += 1;
        let pick = if base > 0 && (bed.d.next_height() == act || rng.chance(1, 2)) { 14 } else { rng.below(23) };
        let (name, to, data): (&str, Option<String>, Vec<u8>) = match pick {
            // a precompile that exists from Prague on (BLS12-381 G1ADD of two points at infinity):
            // the answer tells which rule set ran the code
            14 => ("rule-set-probe", Some(tool.clone()), asm::tool_call(asm::OP_STATIC, &[asm::word_addr(&{ let mut a = [0u8; 20]; a[19] = 0x0b; a })], &[0u8; 256])),
            // deployments around the code-size limits (EIP-170: 24576 bytes of runtime, EIP-3860: 49152 of init code)
            15 => ("deploy-runtime-at-limit", None, vec![0x61, 0x60, 0x00, 0x60, 0x00, 0xf3]),
            16 => ("deploy-runtime-over-limit", None, vec![0x61, 0x60, 0x01, 0x60, 0x00, 0xf3]),
            17 => ("deploy-initcode-over-limit", None, {
                let mut v = vec![0x60, 0x01, 0x60, 0x00, 0xf3];
                v.resize(49153, 0);
                v
            }),
            // call data beyond 1 MiB to a target whose answer depends on every byte of it (SHA-256 precompile)
            20 => ("sha256-of-huge-calldata", Some("0x0000000000000000000000000000000000000002".to_string()), {
                let n = 1_048_577 + rng.below(4096) as usize;
                let seedb = rng.bytes(64);
                seedb.iter().cycle().take(n).cloned().collect()
            }),
            // every environment word the statement does not exclude (block gas limit, coinbase, fees, chain id, ...)
            // a plain call to the zero address (no code there): whatever the data looks like - also init code -
            // it stays a call. Inscription form only: a SIGNED raw transaction addressed to the zero address
            // is a creation by the module's own convention (TxInfo::from_raw_transaction, tests/transact.rs)
            21 => ("call-zero-address", Some("0x0000000000000000000000000000000000000000".to_string()), match rng.below(3) {
                0 => vec![0xfe],
                1 => asm::tool_init(),
                _ => rng.bytes(36),
            }),
            // the outermost frame ends with SELFDESTRUCT: a success (the third success reason besides STOP and RETURN)
            22 => ("selfdestruct-top-level", Some(selfdestructor.clone()), rng.bytes(4)),
            18 => ("env-words", Some(envdump.clone()), vec![]),
            19 => ("deploy-env-stamped", None, asm::env_stamped_init()),
            12 => ("number-blockhash", Some(numhash.clone()), vec![]),
            13 => ("deploy-number-stamped", None, asm::number_stamped_init()),
            0 => ("inc", Some(tool.clone()), asm::tool_call(asm::OP_INC, &[asm::word_u64(rng.range(1, 3))], &[])),
            1 => ("cond", Some(tool.clone()), asm::tool_call(asm::OP_COND, &[asm::word_u64(rng.range(1, 3)), asm::word_u64(7)], &[])),
            2 => ("sstore-old", Some(tool.clone()), asm::tool_call(asm::OP_SSTORE, &[asm::word_u64(rng.range(1, 3)), asm::word_u64(if rng.chance(1, 3) { 7 } else { 0x1000 + uniq })], &[])),
            3 => ("create-child", Some(tool.clone()), asm::tool_call(asm::OP_CREATE, &[], &asm::tool_init())),
            4 => ("create2-child", Some(tool.clone()), asm::tool_call(asm::OP_CREATE2, &[asm::word_u64(rng.below(3))], &asm::tool_init())),
            5 => ("deploy", None, if rng.chance(1, 2) { asm::tool_init() } else { asm::tool_init_with_ctor() }),
            6 => ("revert", Some(tool.clone()), asm::tool_call(asm::OP_REVERT, &[asm::word_u64(uniq)], &[])),
            7 => ("invalid", Some(tool.clone()), asm::tool_call(asm::OP_INVALID, &[], &[])),
            8 => ("nested-inc", Some(tool.clone()), asm::tool_call(asm::OP_CALL, &[asm::word_addr(&t20)], &asm::tool_call(asm::OP_INC, &[asm::word_u64(2)], &[]))),
            9 => ("batch", Some(bed.batcher.clone()), asm::batch_call(rng.chance(1, 2), &[(t20, asm::tool_call(asm::OP_INC, &[asm::word_u64(1)], &[])), (t20, asm::tool_call(asm::OP_COND, &[asm::word_u64(2), asm::word_u64(7)], &[]))])),
            10 => ("sload", Some(tool.clone()), asm::tool_call(asm::OP_SLOAD, &[asm::word_u64(rng.range(1, 3))], &[])),
            _ => ("deploy-garbage", None, rng.bytes(40)),
        };
        let signed = i % 3 == 2 && name != "call-zero-address";
        // every fourth inscription pair comes from a sender the chain has never seen (nonce 0)
        let this_pk = if !signed && i % 4 == 1 { format!("5120{:056x}{:08x}", case_seed as u128, i) } else { sender_pk.clone() };
        let from = if signed { hist::addr_hex(&signer.addr) } else { hist::addr_hex(&hist::pk_address(&this_pk)) };
        let mut call = serde_json::Map::new();
        call.insert("from".into(), json!(from));
        if let Some(t) = &to {
            call.insert("to".into(), json!(t));
        }
        call.insert("data".into(), json!(hist::hx(&data)));
        let next_number = bed.d.next_height();
        let sim = bed.d.inst.call("eth_call", json!([Value::Object(call)]));
        let Some((sim_ok, sim_out)) = sim_result(&sim) else {
            rep.count("simulation_refused", 1);
            continue;
        };
        // execute next with the same sender, target, data
        let (ts, hash) = bed.next_block();
        bed.uniq += 1;
        let iid = format!("c17-{}i0", bed.uniq);
        let nonce_before = hist::account_nonce(&mut bed.d.inst, &hist::parse_addr(&from));
        let r = if signed {
            let raw = signer.sign(Some(chain), nonce_before, to.as_ref().map(|t| hist::parse_addr(t)), &data);
            bed.d.exec(Op::Transact { raw: format!("0x{}", raw), enc: Enc::Hex, ctx: Ctx { ts, hash: hash.clone(), idx: 0 }, iid, len: 1_000_000, txid: hist::ZERO_HASH.into() })
        } else if let Some(t) = &to {
            bed.d.exec(Op::Call { pk: this_pk.clone(), target: Target::Addr(t.clone()), data: Some(hist::hx(&data)), enc: Enc::Hex, ctx: Ctx { ts, hash: hash.clone(), idx: 0 }, iid, len: 1_000_000, txid: hist::ZERO_HASH.into() })
        } else {
            bed.d.exec(Op::Deploy { pk: this_pk.clone(), data: hist::hx(&data), enc: Enc::Hex, ctx: Ctx { ts, hash: hash.clone(), idx: 0 }, iid, len: 1_000_000, txid: hist::ZERO_HASH.into() })
        };
        let n = bed.d.ntx;
        bed.d.exec(Op::Finalise { ts, hash, count: n });
        let Some(rc) = hist::receipts_in(&r).into_iter().next() else {
            rep.inconclusive(format!("no receipt for {}: {}", name, r.short()));
            continue;
        };
        rep.evaluations += 1;
        let exec_ok = rc["status"].as_str() == Some("0x1");
        // a simulation is bounded by the configured call gas limit, the transaction by its allowance:
        // where the real execution went beyond the simulation's limit (random byte code that loops,
        // expands memory or branches on GAS) the two are not comparable - the statement excludes
        // code that depends on the remaining gas
        let used = rc["gasUsed"].as_str().and_then(|x| u64::from_str_radix(x.trim_start_matches("0x"), 16).ok()).unwrap_or(0);
        if name == "deploy-garbage" && (used > rpc::call_gas_limit() || data.iter().any(|b| [0x5au8, 0xf0, 0xf1, 0xf2, 0xf4, 0xf5, 0xfa].contains(b))) {
            rep.count("garbage_beyond_the_simulation_limit_or_gas_dependent", 1);
            continue;
        }
        if exec_ok != sim_ok {
            violation(rep, "C17", ctx.seed, &format!("status-differs:{}", name), format!("eth_call predicted {} for {} but the transaction executed next {}", if sim_ok { "success" } else { "failure" }, name, if exec_ok { "succeeded" } else { "failed" }),
                json!({"case_seed": case_seed, "network": net, "program": name, "signed": signed, "eth_call": sim.short(), "receipt": rc}));
            break;
        }
        if to.is_none() {
            // creation: simulated return data = installed runtime code, at the address the nonce implies
            if exec_ok {
                let addr = rc["contractAddress"].as_str().unwrap_or("").to_string();
                let want_addr = hist::addr_hex(&hist::create_address(&hist::parse_addr(&from), nonce_before));
                let code = bed.d.inst.call("eth_getCode", json!([addr]));
                let code_s = code.ok().and_then(|c| c.as_str().map(|s| s.to_lowercase())).unwrap_or_default();
                if code_s != sim_out || addr.to_lowercase() != want_addr {
                    violation(rep, "C17", ctx.seed, "creation-differs", "a simulated creation returned other code than the deployment installed (or at another address)".into(),
                        json!({"case_seed": case_seed, "network": net, "simulated_code": sim_out, "installed_code": code_s, "address": addr, "address_from_nonce": want_addr}));
                    break;
                }
                rep.nontrivial(format!("creation:{}:{}:{}", signed, nonce_before.min(3), name));
            }
        } else if traces {
            let out = bed.trace_output(&rc).unwrap_or_default().to_lowercase();
            if out != sim_out {
                violation(rep, "C17", ctx.seed, &format!("output-differs:{}", name), format!("eth_call returned other data for {} than the transaction executed next", name),
                    json!({"case_seed": case_seed, "network": net, "program": name, "signed": signed, "eth_call": sim_out, "executed": out, "receipt": rc}));
                break;
            }
            if ["inc", "cond", "sstore-old", "create-child", "create2-child", "nested-inc", "batch", "sload", "number-blockhash", "env-words", "sha256-of-huge-calldata", "call-zero-address", "selfdestruct-top-level"].contains(&name) {
                rep.nontrivial(format!("{}:{}:{}", name, signed, &out[out.len().saturating_sub(6)..]));
            }
            if name == "rule-set-probe" {
                let rel = if base == 0 { "far" } else if next_number == act { "first-block-of-new-rules" } else if next_number < act { "before" } else { "after" };
                rep.nontrivial(format!("rule-set-probe:{}:{}:{}-bytes", net, rel, out.len().saturating_sub(2) / 2));
                rep.set_add("rule_set_probe_answers", format!("{}:{}:{}-bytes", net, rel, out.len().saturating_sub(2) / 2));
            }
        } else if ["cond", "create2-child", "batch"].contains(&name) {
            // without traces only the (state-dependent) success flag is comparable
            rep.nontrivial(format!("{}:{}:{}", name, signed, exec_ok));
        }
        rep.count(&format!("pairs:{}", name), 1);
    }
    // eth_callMany of a sequence vs the same sequence executed in one block
    if traces {
        let seq: Vec<Vec<u8>> = vec![
            asm::tool_call(asm::OP_INC, &[asm::word_u64(1)], &[]),
            asm::tool_call(asm::OP_CREATE, &[], &asm::tool_init()),
            asm::tool_call(asm::OP_INC, &[asm::word_u64(1)], &[]),
            asm::tool_call(asm::OP_SSTORE, &[asm::word_u64(2), asm::word_u64(0x77)], &[]),
            asm::tool_call(asm::OP_SLOAD, &[asm::word_u64(2)], &[]),
        ];
        let calls: Vec<Value> = seq.iter().map(|d| json!({"from": sender, "to": tool, "data": hist::hx(d)})).collect();
        let sim = bed.d.inst.call("eth_callMany", json!([calls]));
        if let Resp::Ok(Value::Array(outs)) = &sim {
            let (ts, hash) = bed.next_block();
            let mut execd = Vec::new();
            for (k, d) in seq.iter().enumerate() {
                bed.uniq += 1;
                let r = bed.d.exec(Op::Call { pk: sender_pk.clone(), target: Target::Addr(tool.clone()), data: Some(hist::hx(d)), enc: Enc::Hex, ctx: Ctx { ts, hash: hash.clone(), idx: k as u64 }, iid: format!("c17-m{}i0", bed.uniq), len: 1_000_000, txid: hist::ZERO_HASH.into() });
                execd.extend(hist::receipts_in(&r));
            }
            let n = bed.d.ntx;
            bed.d.exec(Op::Finalise { ts, hash, count: n });
            rep.evaluations += 1;
            for (k, rc) in execd.iter().enumerate() {
                let out = bed.trace_output(rc).unwrap_or_default().to_lowercase();
                if outs.get(k).and_then(|x| x.as_str()).map(|s| s.to_lowercase()) != Some(out.clone()) {
                    violation(rep, "C17", ctx.seed, "callmany-sequence-differs", format!("element {} of eth_callMany returned other data than the same sequence executed in one block", k), json!({"case_seed": case_seed, "network": net, "simulated": outs, "executed_index": k, "executed": out}));
                    break;
                }
            }
            rep.nontrivial("callmany-sequence".to_string());
        }
    }
    // targets named by the inscription id of a deployment: the target is whatever contract that
    // deployment created - read through brc20_getTxReceiptByInscriptionId - and the burn address if it
    // created none (reverted init code, or a deployment the EVM refused outright, whose nonce the
    // sender's next deployment then uses)
    if rep.violations.is_empty() {
        let p = format!("5120{:056x}{:08x}", (case_seed ^ 0x1d) as u128, 0x1du32);
        let p_addr = hist::addr_hex(&hist::pk_address(&p));
        let mut ids: Vec<(String, &str)> = Vec::new();
        let deployments: Vec<(&str, Vec<u8>, u64)> = vec![
            ("refused", asm::tool_init(), 1),                 // 12 000 gas: below the intrinsic cost, refused by the EVM
            ("reverting-init", vec![0x60, 0x00, 0x60, 0x00, 0xfd], 100_000),
            ("ok", asm::tool_init(), 1_000_000),              // lands on the address the refused one would have had
            ("halting-init", vec![0xfe], 100_000),
            ("ok-2", asm::tool_init_with_ctor(), 1_000_000),
        ];
        for (name, init, len) in deployments {
            let (ts, hash) = bed.next_block();
            bed.uniq += 1;
            let iid = format!("c17-dep-{}-{}i0", name, bed.uniq);
            bed.d.exec(Op::Deploy { pk: p.clone(), data: hist::hx(&init), enc: Enc::Hex, ctx: Ctx { ts, hash: hash.clone(), idx: 0 }, iid: iid.clone(), len, txid: hist::ZERO_HASH.into() });
            let n = bed.d.ntx;
            bed.d.exec(Op::Finalise { ts, hash, count: n });
            ids.push((iid, name));
        }
        for (iid, name) in ids {
            let rc0 = bed.d.inst.call("brc20_getTxReceiptByInscriptionId", json!([iid]));
            let resolved = rc0.ok().and_then(|v| v["contractAddress"].as_str().map(|x| x.to_lowercase())).unwrap_or_else(|| "0x000000000000000000000000000000000000dead".to_string());
            let data = asm::tool_call(asm::OP_INC, &[asm::word_u64(1)], &[]);
            let sim = bed.d.inst.call("eth_call", json!([{"from": p_addr, "to": resolved, "data": hist::hx(&data)}]));
            let Some((sim_ok, sim_out)) = sim_result(&sim) else { continue };
            let (ts, hash) = bed.next_block();
            bed.uniq += 1;
            let r = bed.d.exec(Op::Call { pk: p.clone(), target: Target::Iid(iid.clone()), data: Some(hist::hx(&data)), enc: Enc::Hex, ctx: Ctx { ts, hash: hash.clone(), idx: 0 }, iid: format!("c17-byid-{}i0", bed.uniq), len: 1_000_000, txid: hist::ZERO_HASH.into() });
            let n = bed.d.ntx;
            bed.d.exec(Op::Finalise { ts, hash, count: n });
            let Some(rc) = hist::receipts_in(&r).into_iter().next() else {
                rep.inconclusive(format!("no receipt for a call by inscription id ({}): {}", name, r.short()));
                continue;
            };
            rep.evaluations += 1;
            let exec_ok = rc["status"].as_str() == Some("0x1");
            let out = if traces { bed.trace_output(&rc).unwrap_or_default().to_lowercase() } else { sim_out.clone() };
            let to = rc["to"].as_str().unwrap_or("").to_lowercase();
            if exec_ok != sim_ok || out != sim_out || to != resolved {
                violation(rep, "C17", ctx.seed, &format!("call-by-inscription-id-differs:{}", name),
                    format!("a call addressed by the inscription id of a deployment ({}) ran on {} with status {} and output {}, while eth_call to the contract that deployment created ({}) predicted status {} and output {}", name, to, exec_ok, out, resolved, sim_ok, sim_out),
                    json!({"case_seed": case_seed, "network": net, "deployment": name, "inscription_id": iid, "receipt": rc}));
                break;
            }
            rep.nontrivial(format!("call-by-inscription-id:{}", name));
        }
    }
    if rep.samples.len() < 2 {
        rep.sample(json!({"case_seed": case_seed, "network": net, "pairs": pairs, "height": bed.d.height, "last_calls": log_json(&bed.d.log, 2)}));
    }
    drop_driver(bed.d);
}

pub fn worker(ctx: &WorkerCtx) -> WorkerReport {
    let (net, mut traces) = net_for_shard(ctx.shard);
    let mainnet_boundary = net == "bitcoin" && ctx.thorough() && ctx.shard % 96 == 2;
    if mainnet_boundary {
        traces = true; // outputs are compared through the recorded traces
    }
    crate::setup_env(net, traces);
    let mut rep = WorkerReport::default();
    let mut rng = ctx.rng();
    for c in 0..(if ctx.thorough() { 6 } else { 1 }) {
        let cs = rng.next();
        // one signet shard in twelve crosses the Prague height (275 000 empty blocks first, ~30 s);
        // thorough also crosses the mainnet one (923 369 blocks, ~2 min) on a few shards
        let boundary = c == 0 && ((net == "signet" && ctx.shard % 12 == 1) || mainnet_boundary);
        one_case(ctx, &mut rep, cs, boundary, traces);
    }
    rep
}
