//! C16 — gas allowance follows inscription size and gas estimates are sufficient.

use serde_json::{json, Value};

use super::common::*;
use crate::asm;
use crate::fakebtc;
use crate::hist::{self, Ctx, Driver, Enc, Op, Signer, Target};
use crate::obs::Universe;
use crate::pre;
use crate::report::{Spec, WorkerReport};
use crate::rng::Rng;
use crate::rpc::{self, Resp};
use crate::WorkerCtx;

pub const GAS_PER_BYTE: u64 = 12000;

pub fn spec() -> Spec {
    Spec {
        prop: "C16",
        level: "exploration",
        rule: "Arithmetic from the statement computed in the harness: for every executed transaction gasUsed <= saturating(12000 x L); a transaction whose allowance is below its need fails, and the state part of Obs (code, storage, nonces over the universe) before vs after a block containing only that transaction may differ in nothing but the sender's nonce; the estimate loop is closed: eth_estimateGas and eth_call are answered at a block boundary, then the same call is executed with L = ceil(estimate / 12000) - alone in its block, or as the last transaction behind neighbours of another sender that halt and burn allowances of 100 kB to 5 MB - and must succeed with the same output (trace output). Programs (no GAS/TIMESTAMP/PREVRANDAO dependence): burner loops 0..1e5, cold/warm storage writes and clears (refunds), memory expansion, CREATE, logs, revert-bubbling nested calls, standard and Bitcoin precompiles; L from 0 through need to 2^64-1; inscription, signed and parked-then-drained transactions. A call needing 1.3x the simulation gas limit (memory expansion) with twice that allowance must succeed as an inscription and as a signed transaction. Non-trivial = allowance was the binding constraint (failed for lack of gas, or gasUsed within 10% of the allowance) or an estimate above the 21000 floor whose loop closed; distinct by (program, situation).",
        assumptions: vec!["no claim of minimality: an undersized allowance is allowed to fail".into()],
        exhaustive: false,
        min_nontrivial: 2,
    }
}

pub struct Prog {
    pub name: String,
    /// empty = contract creation
    pub to: String,
    pub data: Vec<u8>,
}

impl Prog {
    /// Programs that swallow the failure of a sub-call or creation observe the remaining gas through
    /// the 63/64 forwarding rule (their output changes with the gas supplied although the outer call
    /// succeeds); the statement excludes gas-inspecting programs, so they stay out of the estimate loop.
    pub fn swallows_inner_failure(&self) -> bool {
        self.name.starts_with("create")
    }
}

/// Programs whose result does not depend on remaining gas, time or randomness.
pub fn programs(rng: &mut Rng, tool: &str, batcher: &str, uniq: &mut u64) -> Vec<Prog> {
    let t20 = hist::parse_addr(tool);
    let chain = fakebtc::chain();
    let mut v = Vec::new();
    let mut u = || {
        *uniq += 1;
        *uniq
    };
    for n in [0u64, 1, 10, 100, 1000, 10_000, 100_000] {
        v.push(Prog { name: format!("burn{}", n), to: tool.into(), data: asm::tool_call(asm::OP_BURN, &[asm::word_u64(n)], &[]) });
    }
    v.push(Prog { name: "sstore-cold-new".into(), to: tool.into(), data: asm::tool_call(asm::OP_SSTORE, &[asm::word_u64(0x9000 + u()), asm::word_u64(7)], &[]) });
    v.push(Prog { name: "sstore-warm-existing".into(), to: tool.into(), data: asm::tool_call(asm::OP_SSTORE, &[asm::word_u64(1), asm::word_u64(0x100 + u())], &[]) });
    v.push(Prog { name: "sstore-clear(refund)".into(), to: tool.into(), data: asm::tool_call(asm::OP_SSTORE, &[asm::word_u64(1), asm::word_u64(0)], &[]) });
    // no call data at all: the intrinsic cost is exactly the 21 000 gas base cost
    v.push(Prog { name: "empty-call-to-contract".into(), to: tool.into(), data: vec![] });
    v.push(Prog { name: "empty-call-to-codeless-account".into(), to: "0x00000000000000000000000000000000000c0de5".into(), data: vec![] });
    v.push(Prog { name: "inc".into(), to: tool.into(), data: asm::tool_call(asm::OP_INC, &[asm::word_u64(2)], &[]) });
    v.push(Prog { name: "logs".into(), to: tool.into(), data: asm::tool_call(asm::OP_LOGS, &[asm::word_u64(rng.range(1, 6)), asm::word_u64(0xa1), asm::word_u64(u() << 8)], &[]) });
    v.push(Prog { name: "mstore-expand".into(), to: tool.into(), data: asm::tool_call(asm::OP_MSTORE, &[asm::word_u64(rng.range(1000, 400_000))], &[]) });
    v.push(Prog { name: "create-child".into(), to: tool.into(), data: asm::tool_call(asm::OP_CREATE, &[], &asm::tool_init()) });
    v.push(Prog { name: "create2-child".into(), to: tool.into(), data: asm::tool_call(asm::OP_CREATE2, &[asm::word_u64(u())], &asm::tool_init_with_ctor()) });
    v.push(Prog { name: "revert".into(), to: tool.into(), data: asm::tool_call(asm::OP_REVERT, &[asm::word_u64(3)], &[]) });
    v.push(Prog { name: "deploy-tool".into(), to: String::new(), data: asm::tool_init() });
    v.push(Prog { name: "deploy-tool-ctor".into(), to: String::new(), data: asm::tool_init_with_ctor() });
    // revert-bubbling nested calls (success is monotone in gas)
    v.push(Prog { name: "batch-2-sstores".into(), to: batcher.into(), data: asm::batch_call(true, &[(t20, asm::tool_call(asm::OP_SSTORE, &[asm::word_u64(0x9100 + u()), asm::word_u64(1)], &[])), (t20, asm::tool_call(asm::OP_INC, &[asm::word_u64(3)], &[]))]) });
    let pc = |a: u64| {
        let mut x = [0u8; 20];
        x[19] = a as u8;
        x
    };
    v.push(Prog { name: "batch-sha256".into(), to: batcher.into(), data: asm::batch_call(true, &[(pc(2), vec![0x61; rng.range(1, 500) as usize])]) });
    v.push(Prog { name: "batch-identity".into(), to: batcher.into(), data: asm::batch_call(true, &[(pc(4), vec![0x62; 100])]) });
    v.push(Prog { name: "batch-locked-pkscript".into(), to: batcher.into(), data: asm::batch_call(true, &[(pc(pre::PC_LOCKED), pre::get_locked_pkscript(&hex::decode("5120e0e224cd541454519b62047aa0891ea7b81a16598556aeb83a412a0b06a20aab").unwrap(), asm::word_u64(6)))]) });
    v.push(Prog { name: "batch-txdetails".into(), to: batcher.into(), data: asm::batch_call(true, &[(pc(pre::PC_TXDETAILS), pre::get_tx_details(&chain.txs[2].txid_b32))]) });
    v.push(Prog { name: "batch-lastsat".into(), to: batcher.into(), data: asm::batch_call(true, &[(pc(pre::PC_LASTSAT), pre::get_last_sat_location(&chain.txs[2].txid_b32, 1, 5))]) });
    v
}

pub struct Bed {
    pub d: Driver,
    pub tool: String,
    pub batcher: String,
    pub pk: String,
    pub ts: u64,
    pub uniq: u64,
    pub traces: bool,
}

impl Bed {
    pub fn new(tag: &str, traces: bool) -> Option<Bed> {
        Bed::new_at(tag, traces, 0)
    }

    /// The bed on top of `base` empty blocks (initialise at height `base`).
    pub fn new_at(tag: &str, traces: bool, base: u64) -> Option<Bed> {
        let mut d = new_driver(tag);
        if base > 0 && !mine_to(&mut d, base) {
            drop_driver(d);
            return None;
        }
        d.exec(Op::Init { hash: hist::ZERO_HASH.into(), ts: 1, height: base });
        let pk = "5120c1c1c1c1c1c1c1c1c1c1c1c1c1c1c1c1c1c1c1c1c1c1c1c1c1c1c1c1c1c1c1".to_string();
        let h = crate::hist::bh((0xc16u64) as u64);
        let r1 = d.exec(Op::Deploy { pk: pk.clone(), data: hist::hx(&asm::tool_init()), enc: Enc::Hex, ctx: Ctx { ts: 2, hash: h.clone(), idx: 0 }, iid: "bed-tool".into(), len: 100_000, txid: hist::ZERO_HASH.into() });
        let r2 = d.exec(Op::Deploy { pk: pk.clone(), data: hist::hx(&asm::batcher_init()), enc: Enc::Hex, ctx: Ctx { ts: 2, hash: h.clone(), idx: 1 }, iid: "bed-batcher".into(), len: 100_000, txid: hist::ZERO_HASH.into() });
        let tool = hist::created_address(&r1)?;
        let batcher = hist::created_address(&r2)?;
        // slot 1 non-zero so that 'clear' earns a refund
        d.exec(Op::Call { pk: pk.clone(), target: Target::Addr(tool.clone()), data: Some(hist::hx(&asm::tool_call(asm::OP_SSTORE, &[asm::word_u64(1), asm::word_u64(5)], &[]))), enc: Enc::Hex, ctx: Ctx { ts: 2, hash: h.clone(), idx: 2 }, iid: "bed-seed".into(), len: 100_000, txid: hist::ZERO_HASH.into() });
        d.exec(Op::Finalise { ts: 2, hash: h, count: 3 });
        Some(Bed { d, tool, batcher, pk, ts: 100, uniq: 0, traces })
    }

    pub fn next_block(&mut self) -> (u64, String) {
        self.ts += 3;
        self.uniq += 1;
        (self.ts, format!("0x{:016x}{:048x}", 0xbedbedbedbedbedbu64, self.uniq))
    }

    /// Execute one call alone in a block; returns the receipt.
    pub fn exec_alone(&mut self, to: &str, data: &[u8], len: u64) -> Option<Value> {
        let (ts, hash) = self.next_block();
        self.uniq += 1;
        let r = if to.is_empty() {
            self.d.exec(Op::Deploy { pk: self.pk.clone(), data: hist::hx(data), enc: Enc::Hex, ctx: Ctx { ts, hash: hash.clone(), idx: 0 }, iid: format!("bed-{}i0", self.uniq), len, txid: hist::ZERO_HASH.into() })
        } else {
            self.d.exec(Op::Call { pk: self.pk.clone(), target: Target::Addr(to.to_string()), data: Some(hist::hx(data)), enc: Enc::Hex, ctx: Ctx { ts, hash: hash.clone(), idx: 0 }, iid: format!("bed-{}i0", self.uniq), len, txid: hist::ZERO_HASH.into() })
        };
        let rc = hist::receipts_in(&r).into_iter().next();
        let n = self.d.ntx;
        self.d.exec(Op::Finalise { ts, hash, count: n });
        rc
    }

    /// Execute one call as the last transaction of a block whose earlier transactions (of another
    /// sender) halt on INVALID and thereby use up their whole allowance of `crowd[i]` bytes each.
    /// An allowance belongs to its transaction: what the neighbours burn is none of its business.
    pub fn exec_behind(&mut self, to: &str, data: &[u8], len: u64, crowd: &[u64]) -> Option<Value> {
        let (ts, hash) = self.next_block();
        let crowd_pk = format!("5120{:064x}", 0xc16c_0de0u64 + self.uniq);
        let halt = hist::hx(&asm::tool_call(asm::OP_INVALID, &[], &[]));
        for (i, l) in crowd.iter().enumerate() {
            self.uniq += 1;
            self.d.exec(Op::Call { pk: crowd_pk.clone(), target: Target::Addr(self.tool.clone()), data: Some(halt.clone()), enc: Enc::Hex, ctx: Ctx { ts, hash: hash.clone(), idx: i as u64 }, iid: format!("bed-{}i0", self.uniq), len: *l, txid: hist::ZERO_HASH.into() });
        }
        self.uniq += 1;
        let idx = self.d.ntx;
        let r = if to.is_empty() {
            self.d.exec(Op::Deploy { pk: self.pk.clone(), data: hist::hx(data), enc: Enc::Hex, ctx: Ctx { ts, hash: hash.clone(), idx }, iid: format!("bed-{}i0", self.uniq), len, txid: hist::ZERO_HASH.into() })
        } else {
            self.d.exec(Op::Call { pk: self.pk.clone(), target: Target::Addr(to.to_string()), data: Some(hist::hx(data)), enc: Enc::Hex, ctx: Ctx { ts, hash: hash.clone(), idx }, iid: format!("bed-{}i0", self.uniq), len, txid: hist::ZERO_HASH.into() })
        };
        let rc = hist::receipts_in(&r).into_iter().next();
        let n = self.d.ntx;
        self.d.exec(Op::Finalise { ts, hash, count: n });
        rc
    }

    pub fn trace_output(&mut self, rc: &Value) -> Option<String> {
        match self.d.inst.call("debug_traceTransaction", json!([rc["transactionHash"]])) {
            Resp::Ok(t) if !t.is_null() => t["output"].as_str().map(|s| s.to_string()),
            _ => None,
        }
    }
}

fn hexq(v: &Value) -> u64 {
    v.as_str().and_then(|s| u64::from_str_radix(s.trim_start_matches("0x"), 16).ok()).unwrap_or(u64::MAX)
}

/// State part of Obs: code, storage, nonces.
fn state_obs(d: &mut Driver, u: &Universe) -> std::collections::BTreeMap<String, Value> {
    let mut m = std::collections::BTreeMap::new();
    for a in &u.addrs {
        for (meth, p) in [("eth_getTransactionCount", json!([a, "latest"])), ("eth_getCode", json!([a]))] {
            m.insert(format!("{} {}", meth, p), crate::obs::canon_resp(&d.inst.call(meth, p.clone())));
        }
        for s in &u.slots {
            let p = json!([a, s]);
            m.insert(format!("eth_getStorageAt {}", p), crate::obs::canon_resp(&d.inst.call("eth_getStorageAt", p)));
        }
    }
    m
}

fn check_allowance(rep: &mut WorkerReport, seed: u64, rc: &Value, len: u64, what: &str) -> bool {
    let allowance = len.saturating_mul(GAS_PER_BYTE);
    let used = hexq(&rc["gasUsed"]);
    rep.evaluations += 1;
    if used > allowance {
        violation(rep, "C16", seed, "gas-above-allowance", format!("{}: gasUsed {} exceeds the allowance {} of an inscription of {} bytes", what, used, allowance, len), json!({"receipt": rc, "len": len}));
        return false;
    }
    true
}

fn one_case(ctx: &WorkerCtx, rep: &mut WorkerReport, case_seed: u64) {
    let (net, traces) = net_for_shard(ctx.shard);
    let mut rng = Rng::new(case_seed);
    let Some(mut bed) = Bed::new("C16", traces) else {
        rep.inconclusive("test bed setup failed");
        return;
    };
    let mut uniq = 0u64;
    let progs = programs(&mut rng, &bed.tool.clone(), &bed.batcher.clone(), &mut uniq);
    let sender = hist::addr_hex(&hist::pk_address(&bed.pk));
    let nprogs = if ctx.thorough() { progs.len() } else { 7 };
    let mut order: Vec<usize> = (0..progs.len()).collect();
    rng.shuffle(&mut order);
    for &pi in order.iter().take(nprogs) {
        let p = &progs[pi];
        // ---- estimate loop ----
        let call = if p.to.is_empty() { json!({"from": sender, "data": hist::hx(&p.data)}) } else { json!({"from": sender, "to": p.to, "data": hist::hx(&p.data)}) };
        let sim = bed.d.inst.call("eth_call", json!([call.clone()]));
        let est = if p.swallows_inner_failure() { Resp::Timeout } else { bed.d.inst.call("eth_estimateGas", json!([call.clone()])) };
        rep.evaluations += 1;
        let need = match (&sim, &est) {
            (_, Resp::Timeout) => {
                // not part of the estimate loop: learn the need from a generous run
                bed.exec_alone(&p.to, &p.data, 1_000_000).map(|rc| hexq(&rc["gasUsed"]))
            }
            (Resp::Ok(out), Resp::Ok(e)) => {
                let e = hexq(e);
                let len = (e + GAS_PER_BYTE - 1) / GAS_PER_BYTE;
                // alone in its block, or behind neighbours that burn large allowances of their own
                let crowd: Vec<u64> = match rng.below(6) {
                    0 => vec![5_000_000],
                    1 => vec![1_000_000; 5],
                    2 => vec![4_194_304],
                    3 => vec![100_000, 3],
                    _ => vec![],
                };
                let exec = if crowd.is_empty() { bed.exec_alone(&p.to, &p.data, len) } else { bed.exec_behind(&p.to, &p.data, len, &crowd) };
                let Some(rc) = exec else {
                    rep.inconclusive("no receipt");
                    continue;
                };
                if !check_allowance(rep, ctx.seed, &rc, len, &p.name) {
                    break;
                }
                if !crowd.is_empty() {
                    rep.nontrivial(format!("estimate-loop-behind-halting-neighbours:{}-bytes", crowd.iter().sum::<u64>()));
                }
                if rc["status"].as_str() != Some("0x1") {
                    violation(rep, "C16", ctx.seed, &format!("estimate-insufficient:{}{}", p.name.trim_end_matches(char::is_numeric), if crowd.is_empty() { "" } else { ":behind-halting-neighbours" }),
                        format!("eth_estimateGas said {} gas for {}, but the same call submitted with inscription length ceil({}/12000) = {} failed (earlier transactions of the block: {:?} bytes, all halting)", e, p.name, e, len, crowd),
                        json!({"case_seed": case_seed, "network": net, "program": p.name, "estimate": e, "len": len, "receipt": rc, "call": call, "halting_neighbours_bytes": crowd}));
                    break;
                }
                if traces {
                    let out_exec = bed.trace_output(&rc);
                    if out_exec.as_deref() != out.as_str() {
                        violation(rep, "C16", ctx.seed, &format!("estimate-output-differs:{}", p.name.trim_end_matches(char::is_numeric)),
                            format!("{} executed with the estimated allowance returned other data than eth_call", p.name),
                            json!({"case_seed": case_seed, "network": net, "program": p.name, "eth_call": out, "executed": out_exec}));
                        break;
                    }
                }
                if e > 21000 + GAS_PER_BYTE {
                    rep.nontrivial(format!("estimate-loop:{}", p.name));
                }
                rep.count("estimate_loops_closed", 1);
                Some(hexq(&rc["gasUsed"]))
            }
            (Resp::Err { .. }, Resp::Err { .. }) => {
                rep.count("estimate_refused_for_failing_call", 1);
                None
            }
            (a, b) => {
                violation(rep, "C16", ctx.seed, "estimate-call-disagree", format!("eth_call and eth_estimateGas disagree on whether {} can succeed", p.name), json!({"case_seed": case_seed, "eth_call": a.short(), "eth_estimateGas": b.short(), "program": p.name}));
                break;
            }
        };
        // ---- allowance sweep ----
        let need_len = need.map(|g| (g + GAS_PER_BYTE - 1) / GAS_PER_BYTE).unwrap_or(3);
        let mut lens = vec![0u64, 1, need_len.saturating_sub(1), need_len, need_len + 1, need_len * 2 + 1, 1_000_000, u64::MAX / GAS_PER_BYTE, u64::MAX / GAS_PER_BYTE + 1, u64::MAX];
        if p.name.starts_with("empty-call") {
            lens = vec![0, 1, 2, 3, 1, 0];
        } else if !ctx.thorough() {
            rng.shuffle(&mut lens);
            lens.truncate(4);
            lens.push(u64::MAX / GAS_PER_BYTE + 1 + rng.below(1000));
            lens.push(u64::MAX);
        }
        for len in lens {
            // state before
            let mut u = Universe::new();
            u.addrs.insert(bed.tool.to_lowercase());
            u.addrs.insert(bed.batcher.to_lowercase());
            u.addrs.insert(sender.clone());
            for s in [1u64, 2, 3, 0xc0de] {
                u.add_slot_u64(s);
            }
            let before = state_obs(&mut bed.d, &u);
            let Some(rc) = bed.exec_alone(&p.to, &p.data, len) else {
                rep.inconclusive("no receipt");
                continue;
            };
            if !check_allowance(rep, ctx.seed, &rc, len, &p.name) {
                drop_driver(bed.d);
                return;
            }
            let used = hexq(&rc["gasUsed"]);
            let allowance = len.saturating_mul(GAS_PER_BYTE);
            let failed = rc["status"].as_str() != Some("0x1");
            // an allowance well above the need must be enough (the allowance follows the size)
            if let Some(n) = need {
                if failed && p.name != "revert" && len >= 2 * ((n + GAS_PER_BYTE - 1) / GAS_PER_BYTE) + 1 {
                    violation(rep, "C16", ctx.seed, "starved-despite-sufficient-length", format!("{} needs about {} gas but failed with an inscription length of {} bytes (allowance {} gas, used {})", p.name, n, len, allowance, used), json!({"case_seed": case_seed, "network": net, "program": p.name, "len": len, "receipt": rc}));
                    drop_driver(bed.d);
                    return;
                }
            }
            let starved = failed && (used == allowance || used == 0) && need.map(|n| allowance < n + n / 2).unwrap_or(false) && p.name != "revert";
            if starved {
                let after = state_obs(&mut bed.d, &u);
                let nonce_key = format!("eth_getTransactionCount {}", json!([sender, "latest"]));
                let diffs: Vec<&String> = before.keys().filter(|k| before.get(*k) != after.get(*k) && **k != nonce_key).collect();
                if !diffs.is_empty() {
                    violation(rep, "C16", ctx.seed, "out-of-allowance-tx-changed-state", format!("{} ran out of its allowance ({} bytes) and still changed {} state queries other than the sender's nonce", p.name, len, diffs.len()), json!({"case_seed": case_seed, "network": net, "program": p.name, "len": len, "changed": diffs.iter().take(8).collect::<Vec<_>>(), "receipt": rc}));
                    drop_driver(bed.d);
                    return;
                }
                rep.nontrivial(format!("starved:{}:{}", p.name, if used == 0 { "invalid" } else { "oog" }));
            } else if !failed && allowance > 0 && used >= allowance - allowance / 10 {
                rep.nontrivial(format!("tight:{}", p.name));
            }
            rep.count("allowance_runs", 1);
        }
    }
    // signed + parked-then-drained transactions obey the allowance recorded when they were inscribed
    let signer = Signer::new(21);
    let chain = rpc::chain_id_for(net);
    let t20 = hist::parse_addr(&bed.tool);
    for (k, len) in [(0u64, 3u64), (1, 40), (2, 2)] {
        let (ts, hash) = bed.next_block();
        let n0 = hist::account_nonce(&mut bed.d.inst, &signer.addr);
        let data = asm::tool_call(asm::OP_BURN, &[asm::word_u64(2000 * (k + 1))], &[]);
        let raw1 = signer.sign(Some(chain), n0 + 1, Some(t20), &data);
        let raw0 = signer.sign(Some(chain), n0, Some(t20), &asm::tool_call(asm::OP_INC, &[asm::word_u64(2)], &[]));
        bed.uniq += 2;
        let r1 = bed.d.exec(Op::Transact { raw: format!("0x{}", raw1), enc: Enc::Hex, ctx: Ctx { ts, hash: hash.clone(), idx: 0 }, iid: format!("c16-p{}", bed.uniq), len, txid: hist::ZERO_HASH.into() });
        let r0 = bed.d.exec(Op::Transact { raw: format!("0x{}", raw0), enc: Enc::Hex, ctx: Ctx { ts, hash: hash.clone(), idx: 0 }, iid: format!("c16-q{}", bed.uniq), len: 100_000, txid: hist::ZERO_HASH.into() });
        let _ = r1;
        let rcs = hist::receipts_in(&r0);
        if rcs.len() == 2 {
            if !check_allowance(rep, ctx.seed, &rcs[1], len, "drained signed transaction") {
                break;
            }
            rep.nontrivial(format!("drained:{}", if rcs[1]["status"].as_str() == Some("0x1") { "fits" } else { "starved" }));
        }
        let n = bed.d.ntx;
        bed.d.exec(Op::Finalise { ts, hash, count: n });
    }
    // the allowance follows the reported size whoever sends the transaction: a call that needs more
    // gas than the simulation limit (memory expansion: quadratic, instant to execute) with an
    // allowance twice its need must succeed as an inscription and as a signed transaction
    {
        let cap = rpc::call_gas_limit();
        let words = ((cap as f64) * 1.3 * 512.0).sqrt() as u64;
        let need_est = words * words / 512 + 3 * words + 40_000;
        let len = need_est * 2 / GAS_PER_BYTE + 1;
        let data = asm::tool_call(asm::OP_MSTORE, &[asm::word_u64(words * 32)], &[]);
        for kind in ["inscription", "signed"] {
            let rc = if kind == "inscription" {
                bed.exec_alone(&bed.tool.clone(), &data, len)
            } else {
                let (ts, hash) = bed.next_block();
                let n0 = hist::account_nonce(&mut bed.d.inst, &signer.addr);
                let raw = signer.sign(Some(chain), n0, Some(t20), &data);
                bed.uniq += 1;
                let r = bed.d.exec(Op::Transact { raw: format!("0x{}", raw), enc: Enc::Hex, ctx: Ctx { ts, hash: hash.clone(), idx: 0 }, iid: format!("c16-big{}", bed.uniq), len, txid: hist::ZERO_HASH.into() });
                let n = bed.d.ntx;
                bed.d.exec(Op::Finalise { ts, hash, count: n });
                hist::receipts_in(&r).into_iter().next()
            };
            let Some(rc) = rc else {
                rep.inconclusive(format!("no receipt for the {} above the simulation limit", kind));
                continue;
            };
            rep.evaluations += 1;
            if !check_allowance(rep, ctx.seed, &rc, len, "call above the simulation gas limit") {
                break;
            }
            let used = hexq(&rc["gasUsed"]);
            if rc["status"].as_str() != Some("0x1") {
                violation(rep, "C16", ctx.seed, &format!("starved-despite-sufficient-length:{}", kind),
                    format!("a {} needing about {} gas failed although its inscription length of {} bytes allows {} gas (it used {}; simulation limit {})", kind, need_est, len, len * GAS_PER_BYTE, used, cap),
                    json!({"case_seed": case_seed, "network": net, "receipt": rc}));
                break;
            }
            if used > cap {
                rep.nontrivial(format!("above-simulation-limit:{}", kind));
            }
        }
    }
    if rep.samples.len() < 2 {
        rep.sample(json!({"case_seed": case_seed, "network": net, "programs": progs.iter().map(|p| p.name.clone()).collect::<Vec<_>>(), "last_calls": log_json(&bed.d.log, 2)}));
    }
    drop_driver(bed.d);
}

pub fn worker(ctx: &WorkerCtx) -> WorkerReport {
    let (net, traces) = net_for_shard(ctx.shard);
    crate::setup_env(net, traces);
    let mut rep = WorkerReport::default();
    let mut rng = ctx.rng();
    for _ in 0..(if ctx.thorough() { 3 } else { 1 }) {
        let cs = rng.next();
        one_case(ctx, &mut rep, cs);
    }
    rep
}
