//! C05 — a rejected indexer call changes nothing; the block protocol is enforced.

use serde_json::{json, Value};

use super::common::*;
use crate::asm;
use crate::hist::{self, Ctx, Driver, Enc, Op, Target, World};
use crate::obs::{self, ObsMode};
use crate::report::{Spec, WorkerReport};
use crate::rng::Rng;
use crate::rpc::{self, Resp};
use crate::WorkerCtx;

pub fn spec() -> Spec {
    Spec {
        prop: "C05",
        level: "exploration",
        rule: "Twin: the disturbed instance gets a generated history with out-of-protocol and malformed brc20_* calls injected at arbitrary positions (also mid-block); the clean instance gets the same history minus exactly the calls that returned errors. All remaining responses, Obs at every block boundary, the non-executing part of Obs and txpool_content mid-block must be equal, and the open block must finalise with the same count. A must-reject table from the statement (wrong tx_idx, other timestamp/hash than the open block, wrong finalise count, existing block hash, existing/non-next height via initialise, commit/reorg/mine while a block is open, both or neither data encodings, undecodable raw transaction, malformed pkscript, non-numeric amount) must always be refused. Durability: histories contain clearCaches / restarts after injections and end with one on both instances, so that anything a rejected call wrote to disk becomes visible. Non-trivial = injected call that returned an error while >=1 transaction of the open block or >=1 pool entry existed; distinct by (call kind, reason, mid-block?).",
        assumptions: vec![
            "brc20_transact whose transaction is ignored or parked (stale / future nonce / other chain id) does not consume a block position; its tx_idx/timestamp/hash are not judged (C08 covers those paths)".into(),
            "the fake Bitcoin node is up, so brc20_initialise's documented environment error does not occur".into(),
        ],
        exhaustive: false,
        min_nontrivial: 2,
    }
}

struct Inj {
    op: Op,
    kind: &'static str,
    must_reject: bool,
}

fn raw(method: &str, params: Value) -> Op {
    Op::Raw { method: method.to_string(), params }
}

fn injections(rng: &mut Rng, w: &mut World, d: &mut Driver) -> Vec<Inj> {
    let mut v = Vec::new();
    let open = d.open.clone();
    let ntx = d.ntx;
    let (ts, hash) = open.clone().unwrap_or((w.ts + 1, crate::hist::bh((0xc05_0000u64 + rng.below(1 << 30)) as u64)));
    let pk = w.pks[0].clone();
    let tool = w.tools.first().cloned().unwrap_or_else(|| "0x00000000000000000000000000000000000000aa".into());
    let data = hist::hx(&asm::tool_call(asm::OP_INC, &[asm::word_u64(9)], &[]));
    let mk_call = |ts: u64, hash: &str, idx: u64, iid: String| Op::Call { pk: pk.clone(), target: Target::Addr(tool.clone()), data: Some(data.clone()), enc: Enc::Hex, ctx: Ctx { ts, hash: hash.to_string(), idx }, iid, len: 100_000, txid: hist::ZERO_HASH.into() };
    let u = w.uniq();
    // wrong tx_idx
    for (k, idx) in [("idx+1", ntx + 1), ("idx-huge", u64::MAX), ("idx+7", ntx + 7)] {
        v.push(Inj { op: mk_call(ts, &hash, idx, format!("inj-{}-{}", u, k)), kind: "wrong-tx-idx", must_reject: true });
    }
    if ntx > 0 {
        v.push(Inj { op: mk_call(ts, &hash, ntx - 1, format!("inj-{}-idxm1", u)), kind: "wrong-tx-idx", must_reject: true });
        v.push(Inj { op: mk_call(ts.wrapping_add(1), &hash, ntx, format!("inj-{}-ts", u)), kind: "other-timestamp", must_reject: true });
        v.push(Inj { op: mk_call(ts, &crate::hist::bh((0xdead_0000u64 + u) as u64), ntx, format!("inj-{}-hash", u)), kind: "other-hash", must_reject: true });
        v.push(Inj { op: Op::Deposit { pk: pk.clone(), ticker: "inj".into(), amount: "0x1".into(), ctx: Ctx { ts: ts.wrapping_add(5), hash: hash.clone(), idx: ntx }, iid: format!("inj-{}-dep", u) }, kind: "other-timestamp", must_reject: true });
        v.push(Inj { op: Op::Finalise { ts, hash: hash.clone(), count: ntx + 1 }, kind: "finalise-wrong-count", must_reject: true });
        v.push(Inj { op: Op::Finalise { ts, hash: hash.clone(), count: ntx - 1 }, kind: "finalise-wrong-count", must_reject: true });
        v.push(Inj { op: Op::Finalise { ts: ts.wrapping_add(3), hash: hash.clone(), count: ntx }, kind: "finalise-other-timestamp", must_reject: true });
        v.push(Inj { op: Op::Finalise { ts, hash: crate::hist::bh((0xbeef_0000u64 + u) as u64), count: ntx }, kind: "finalise-other-hash", must_reject: true });
        // the zero hash stands for "the generated hash of this height": in a block that was opened under
        // an explicit hash it is another hash
        let explicit = open.as_ref().map(|(_, h)| h != hist::ZERO_HASH).unwrap_or(false);
        // (only injected there: in a block opened under the zero hash the call is in protocol, would be
        // accepted, and the injections after it in this batch were computed for the block without it)
        if explicit {
            v.push(Inj { op: mk_call(ts, hist::ZERO_HASH, ntx, format!("inj-{}-zerohash", u)), kind: "zero-hash-in-explicit-block", must_reject: true });
            v.push(Inj { op: Op::Finalise { ts, hash: hist::ZERO_HASH.to_string(), count: ntx }, kind: "finalise-zero-hash-in-explicit-block", must_reject: true });
        }
        v.push(Inj { op: Op::Commit, kind: "commit-while-open", must_reject: true });
        v.push(Inj { op: Op::Reorg { n: (d.height - 1).max(0) as u64 }, kind: "reorg-while-open", must_reject: true });
        v.push(Inj { op: Op::Mine { n: 1, ts: 5 }, kind: "mine-while-open", must_reject: true });
        v.push(Inj { op: Op::Init { hash: crate::hist::bh((0xfeed_0000u64 + u) as u64), ts: 9, height: d.next_height() }, kind: "initialise-while-open", must_reject: true });
    } else {
        v.push(Inj { op: Op::Finalise { ts, hash: hash.clone(), count: 1 }, kind: "finalise-wrong-count", must_reject: true });
    }
    // existing block hash / height
    if d.height >= 1 {
        if let Some(Op::Finalise { hash: old, .. }) = d.chain.get(d.height as usize).and_then(|ops| ops.last()).cloned() {
            if old != hist::ZERO_HASH && ntx == 0 {
                v.push(Inj { op: mk_call(ts, &old, 0, format!("inj-{}-oldhash", u)), kind: "existing-block-hash", must_reject: true });
                v.push(Inj { op: Op::Finalise { ts, hash: old, count: 0 }, kind: "existing-block-hash", must_reject: true });
            }
        }
        v.push(Inj { op: Op::Init { hash: crate::hist::bh((0xfeed_1000u64 + u) as u64), ts: 9, height: rng.range(0, d.height as u64) }, kind: "initialise-existing-height", must_reject: true });
        if ntx == 0 {
            v.push(Inj { op: Op::Init { hash: crate::hist::bh((0xfeed_2000u64 + u) as u64), ts: 9, height: d.next_height() + rng.range(1, 5) }, kind: "initialise-not-next-height", must_reject: true });
            // a second initialise is out of protocol - as long as the first one is still part of the chain
            // (a clearCaches before it was committed takes it away again)
            let initialised = d.chain.iter().flatten().any(|o| matches!(o, Op::Init { .. }));
            v.push(Inj { op: Op::Init { hash: crate::hist::bh((0xfeed_3000u64 + u) as u64), ts: 9, height: d.next_height() }, kind: "initialise-again", must_reject: initialised });
            v.push(Inj { op: Op::Reorg { n: d.height as u64 + 1 }, kind: "reorg-above-height", must_reject: true });
        }
    }
    // both / neither encodings
    let idx = ntx;
    v.push(Inj { op: raw("brc20_call", json!({"from_pkscript": pk, "contract_address": tool, "data": data, "base64_data": "AA", "timestamp": ts, "hash": hash, "tx_idx": idx, "inscription_id": format!("inj-{}-both", u), "inscription_byte_len": 1000, "op_return_tx_id": hist::ZERO_HASH})), kind: "both-encodings", must_reject: true });
    v.push(Inj { op: raw("brc20_deploy", json!({"from_pkscript": pk, "timestamp": ts, "hash": hash, "tx_idx": idx, "inscription_id": format!("inj-{}-neither", u), "inscription_byte_len": 1000, "op_return_tx_id": hist::ZERO_HASH})), kind: "neither-encoding", must_reject: true });
    v.push(Inj { op: raw("brc20_transact", json!({"raw_tx_data": "0x01", "base64_raw_tx_data": "AA", "timestamp": ts, "hash": hash, "tx_idx": idx, "inscription_id": format!("inj-{}-both-t", u), "inscription_byte_len": 1000, "op_return_tx_id": hist::ZERO_HASH})), kind: "both-encodings", must_reject: true });
    v.push(Inj { op: raw("brc20_transact", json!({"timestamp": ts, "hash": hash, "tx_idx": idx, "inscription_id": format!("inj-{}-neither-t", u), "inscription_byte_len": 1000, "op_return_tx_id": hist::ZERO_HASH})), kind: "neither-encoding", must_reject: true });
    // both encodings where only one carries something decodable: still both
    {
        let good_b64 = hist::b64_of_hex(&data);
        let (h, b): (Value, Value) = match rng.below(7) {
            0 => (json!(data), json!("")),
            1 => (json!(data), json!("!!!!")),
            2 => (json!(data), json!("Aw")),
            3 => (json!(data), json!(7)),
            4 => (json!("0xzz"), json!(good_b64)),
            5 => (json!(""), json!(good_b64)),
            _ => (json!("0x"), json!(good_b64)),
        };
        v.push(Inj { op: raw("brc20_call", json!({"from_pkscript": pk, "contract_address": tool, "data": h, "base64_data": b, "timestamp": ts, "hash": hash, "tx_idx": idx, "inscription_id": format!("inj-{}-both1", u), "inscription_byte_len": 100000, "op_return_tx_id": hist::ZERO_HASH})), kind: "both-encodings-one-undecodable", must_reject: true });
        v.push(Inj { op: raw("brc20_deploy", json!({"from_pkscript": pk, "data": if h.as_str() == Some(data.as_str()) { json!(hist::hx(&asm::tool_init())) } else { h.clone() }, "base64_data": if b.as_str() == Some(good_b64.as_str()) { json!(hist::b64_of_hex(&hist::hx(&asm::tool_init()))) } else { b.clone() }, "timestamp": ts, "hash": hash, "tx_idx": idx, "inscription_id": format!("inj-{}-both2", u), "inscription_byte_len": 100000, "op_return_tx_id": hist::ZERO_HASH})), kind: "both-encodings-one-undecodable", must_reject: true });
    }
    // undecodable raw tx, malformed pkscript, non-numeric amount, missing fields
    v.push(Inj { op: Op::Transact { raw: format!("0x{}", hex::encode(rng.bytes(40))), enc: Enc::Hex, ctx: Ctx { ts, hash: hash.clone(), idx }, iid: format!("inj-{}-garbage", u), len: 1000, txid: hist::ZERO_HASH.into() }, kind: "undecodable-raw-tx", must_reject: true });
    v.push(Inj { op: Op::Deposit { pk: "zz-not-hex".into(), ticker: "inj".into(), amount: "0x1".into(), ctx: Ctx { ts, hash: hash.clone(), idx }, iid: format!("inj-{}-pk", u) }, kind: "malformed-pkscript", must_reject: true });
    v.push(Inj { op: Op::Call { pk: "0x12".into(), target: Target::Addr(tool.clone()), data: Some(data.clone()), enc: Enc::Hex, ctx: Ctx { ts, hash: hash.clone(), idx }, iid: format!("inj-{}-pk2", u), len: 1000, txid: hist::ZERO_HASH.into() }, kind: "malformed-pkscript", must_reject: true });
    v.push(Inj { op: Op::Withdraw { pk: pk.clone(), ticker: "inj".into(), amount: "twelve".into(), ctx: Ctx { ts, hash: hash.clone(), idx }, iid: format!("inj-{}-amt", u) }, kind: "non-numeric-amount", must_reject: true });
    v.push(Inj { op: raw("brc20_deposit", json!({"to_pkscript": pk, "ticker": "inj"})), kind: "missing-fields", must_reject: true });
    v.push(Inj { op: raw("brc20_finaliseBlock", json!({"timestamp": "soon", "hash": hash, "block_tx_count": 0})), kind: "ill-typed", must_reject: true });
    v.push(Inj { op: raw("brc20_mine", json!({"block_count": -1, "timestamp": 5})), kind: "ill-typed", must_reject: true });
    v
}

/// Disturbed run D with injections, then clean run C = D's calls minus those that errored.
fn run_case(ctx: &WorkerCtx, rep: &mut WorkerReport, case_seed: u64, blocks: u64) {
    let (net, _) = net_for_shard(ctx.shard);
    let mut rng = Rng::new(case_seed ^ 0x5eed);
    let mut w = World::new(case_seed, rpc::chain_id_for(net));
    let scale = scale_world(&mut w, case_seed, true, false);
    rep.set_add("scale_profiles", scale);
    w.profile.p_empty_block = 15;
    w.profile.p_future_nonce = 40;
    let mut d = new_driver("C05");
    #[derive(Clone)]
    enum Step {
        Call(Op, Resp),
        ObsBoundary,
        ObsMid,
        ObsPool,
    }
    // a signer nobody else uses: its future-nonce transaction is never drained and expires exactly ten
    // blocks after it was parked, so that rejected calls can be injected at the expiry height
    let orphan = hist::Signer::new_seeded(case_seed ^ 0x0c05_0bfa);
    let mut orphan_stamp: Option<u64> = None;
    let mut steps: Vec<Step> = Vec::new();
    let mut consumed = 0usize; // how much of d.log has been copied into steps
    macro_rules! sync {
        () => {
            while consumed < d.log.len() {
                let (o, r) = d.log[consumed].clone();
                steps.push(Step::Call(o, r));
                consumed += 1;
            }
        };
    }
    macro_rules! inject {
        ($at_expiry:expr) => {{
            let mut inj = injections(&mut rng, &mut w, &mut d);
            rng.shuffle(&mut inj);
            let mut take = rng.range(1, 4) as usize;
            if $at_expiry {
                // the refused call that matters at an expiry height is the one that closes the block
                inj.sort_by_key(|i| !matches!(i.op, Op::Finalise { .. }));
                take = take.max(2);
                rep.set_add("coverage", "rejected-finalise-at-pool-expiry-height".to_string());
            }
            for i in inj.into_iter().take(take) {
                let pool_nonempty = match d.inst.call("txpool_content", json!([])) {
                    Resp::Ok(v) => v["pending"].as_object().map(|o| !o.is_empty()).unwrap_or(false),
                    _ => false,
                };
                let mid = d.ntx > 0;
                let r = d.exec(i.op.clone());
                rep.evaluations += 1;
                rep.count(&format!("injected:{}", i.kind), 1);
                match &r {
                    Resp::Err { .. } => {
                        if mid || pool_nonempty {
                            rep.nontrivial(format!("{}:{}:{}", i.op.kind(), i.kind, if mid { "mid-block" } else { "boundary" }));
                        }
                    }
                    Resp::Ok(_) if i.must_reject => {
                        violation(rep, "C05", ctx.seed, &format!("accepted:{}", i.kind), format!("an out-of-protocol call ({}) was accepted: {}", i.kind, r.short()), json!({"case_seed": case_seed, "network": net, "op": i.op, "open_block_txs": d.ntx, "history": log_json(&d.log, 60)}));
                        drop_driver(d);
                        return;
                    }
                    Resp::Panic(m) => {
                        violation(rep, "C05", ctx.seed, &format!("panic:{}", i.kind), format!("an out-of-protocol call ({}) made the handler panic: {}", i.kind, m), json!({"case_seed": case_seed, "op": i.op}));
                        drop_driver(d);
                        return;
                    }
                    _ => {}
                }
            }
            sync!();
            steps.push(Step::ObsPool);
        }};
    }
    for _ in 0..blocks {
        if d.height < 0 {
            w.gen_block(&mut d);
            sync!();
            steps.push(Step::ObsBoundary);
            continue;
        }
        if orphan_stamp.is_none() && d.ntx == 0 && d.height >= w.base as i64 && rng.chance(2, 3) {
            let blk = w.block_ctx(&d);
            let raw = orphan.sign(Some(w.chain_id), rng.range(1, 5), None, &asm::tool_init());
            let len = (raw.len() / 2) as u64 + 100_000;
            let stamp = d.next_height();
            let r = d.exec(Op::Transact { raw: format!("0x{}", raw), enc: Enc::Hex, ctx: Ctx { ts: blk.0, hash: blk.1.clone(), idx: 0 }, iid: w.iid(), len, txid: w.txid() });
            sync!();
            if r.is_ok() && hist::receipts_in(&r).is_empty() {
                orphan_stamp = Some(stamp);
            }
        }
        let at_expiry = orphan_stamp.map(|b| d.next_height() == b + 10).unwrap_or(false);
        if at_expiry || rng.chance(1, 2) {
            inject!(at_expiry && d.ntx == 0);
            // what a rejected call wrote to disk only shows once the uncommitted part is dropped
            if d.ntx == 0 && d.committed >= w.base as i64 && rng.chance(1, 4) {
                d.exec(if rng.chance(1, 2) { Op::Clear } else { Op::Reopen });
                sync!();
                steps.push(Step::ObsBoundary);
            }
        }
        let blk = w.block_ctx(&d);
        let n = rng.range(0, 5);
        for _ in 0..n {
            w.gen_tx(&mut d, &blk);
            sync!();
            if (at_expiry && rng.chance(1, 2)) || rng.chance(1, 2) {
                inject!(at_expiry);
                if rng.chance(1, 3) {
                    steps.push(Step::ObsMid);
                }
            }
        }
        let blk = d.open.clone().unwrap_or(blk);
        let cnt = d.ntx;
        let r = d.exec(Op::Finalise { ts: blk.0, hash: blk.1, count: cnt });
        sync!();
        if !r.is_ok() {
            violation(rep, "C05", ctx.seed, "finalise-refused-after-injections", format!("after rejected calls the open block could not be finalised with its {} transactions: {}", cnt, r.short()), json!({"case_seed": case_seed, "network": net, "history": log_json(&d.log, 80)}));
            drop_driver(d);
            return;
        }
        steps.push(Step::ObsBoundary);
        if rng.chance(1, 5) {
            d.exec(Op::Commit);
            sync!();
        }
    }
    let u = universe(&[&d.log], d.height.max(0) as u64, Some(&w));
    // second pass: D' (same calls incl. rejected ones) and C (without the rejected ones), with Obs
    let mut dd = new_driver("C05");
    let mut cc = new_driver("C05");
    let mut removed = 0u64;
    for (si, st) in steps.iter().enumerate() {
        match st {
            Step::Call(op, r) => {
                let rd = dd.exec(op.clone());
                if !same(&rd, r) {
                    // the disturbed history is not reproducible: inconclusive, not a violation of C05
                    rep.inconclusive(format!("disturbed history did not replay identically at step {} ({})", si, op.kind()));
                    break;
                }
                if r.is_err() {
                    removed += 1;
                    continue;
                }
                let rc = cc.exec(op.clone());
                if !same(&rc, r) {
                    violation(rep, "C05", ctx.seed, &format!("later-call-differs:{}", op.kind()),
                        "with the rejected calls removed from the history, a later call returns something else: a rejected call changed state".into(),
                        json!({"case_seed": case_seed, "network": net, "op": op, "with_rejected_calls": r.short(), "without": rc.short(), "rejected_before": steps[..si].iter().filter_map(|s| match s { Step::Call(o, r) if r.is_err() => Some(json!({"op": o, "err": r.short()})), _ => None }).collect::<Vec<_>>().into_iter().rev().take(6).collect::<Vec<_>>()}));
                    break;
                }
            }
            Step::ObsPool => {
                // the pending pool right after a rejected call (nothing else in between)
                let pd = dd.inst.call("txpool_content", json!([]));
                let pc = cc.inst.call("txpool_content", json!([]));
                rep.evaluations += 1;
                if !same(&pd, &pc) {
                    violation(rep, "C05", ctx.seed, "pool-differs-after-rejected-call",
                        "right after a rejected call the pending pool differs from the one of the instance that never saw the call".into(),
                        json!({"case_seed": case_seed, "network": net, "with_rejected_calls": pd.short(), "without": pc.short(),
                               "recent_rejected": steps[..si].iter().filter_map(|s| match s { Step::Call(o, r) if r.is_err() => Some(json!({"op": o, "err": r.short()})), _ => None }).collect::<Vec<_>>().into_iter().rev().take(4).collect::<Vec<_>>()}));
                    break;
                }
            }
            Step::ObsBoundary | Step::ObsMid => {
                let mode = if matches!(st, Step::ObsBoundary) { ObsMode::Boundary } else { ObsMode::MidBlock };
                let mut uu = u.clone();
                uu.max_height = dd.height.max(0) as u64 + 1;
                let (od, oc) = observe_pair(&mut dd.inst, &mut cc.inst, &uu, mode);
                rep.evaluations += 1;
                let diff = od.diff(&oc);
                if !diff.is_empty() {
                    violation(rep, "C05", ctx.seed, &format!("state-differs:{}:{}", if mode == ObsMode::Boundary { "boundary" } else { "mid-block" }, obs_diff_sig(&diff)),
                        format!("the instance that received {} rejected calls answers {} queries differently from the one that never saw them", removed, diff.len()),
                        json!({"case_seed": case_seed, "network": net, "differences(disturbed vs clean)": obs::diff_summary(&diff, 10),
                               "recent_rejected": steps[..si].iter().filter_map(|s| match s { Step::Call(o, r) if r.is_err() => Some(json!({"op": o, "err": r.short()})), _ => None }).collect::<Vec<_>>().into_iter().rev().take(8).collect::<Vec<_>>()}));
                    break;
                }
            }
        }
    }
    // epilogue: drop everything uncommitted on both; a rejected call must not have made anything durable
    if rep.violations.is_empty() && dd.ntx == 0 && cc.ntx == 0 && dd.committed >= w.base as i64 {
        let op = if rng.chance(1, 2) { Op::Clear } else { Op::Reopen };
        let (rd, rc) = (dd.exec(op.clone()), cc.exec(op.clone()));
        if rd.is_ok() && rc.is_ok() {
            let mut uu = u.clone();
            uu.max_height = d.height.max(0) as u64 + 1;
            let (od, oc) = observe_pair(&mut dd.inst, &mut cc.inst, &uu, ObsMode::Boundary);
            rep.evaluations += 1;
            let diff = od.diff(&oc);
            if !diff.is_empty() {
                violation(rep, "C05", ctx.seed, &format!("durable-state-differs:{}", obs_diff_sig(&diff)),
                    format!("after dropping the uncommitted blocks ({}) the instance that received {} rejected calls answers {} queries differently from the one that never saw them: a rejected call wrote to disk", op.kind(), removed, diff.len()),
                    json!({"case_seed": case_seed, "network": net, "differences(disturbed vs clean)": obs::diff_summary(&diff, 10),
                           "rejected": steps.iter().filter_map(|s| match s { Step::Call(o, r) if r.is_err() => Some(json!({"op": o, "err": r.short()})), _ => None }).collect::<Vec<_>>().into_iter().rev().take(8).collect::<Vec<_>>()}));
            } else if removed > 0 {
                rep.nontrivial(format!("durable-state-unchanged:{}", op.kind()));
            }
        }
    }
    rep.count("rejected_calls_removed", removed);
    if rep.samples.len() < 2 {
        rep.sample(json!({"case_seed": case_seed, "network": net, "steps": steps.len(), "rejected_calls": removed, "blocks": d.height + 1}));
    }
    drop_driver(d);
    drop_driver(dd);
    drop_driver(cc);
}

pub fn worker(ctx: &WorkerCtx) -> WorkerReport {
    let (net, traces) = net_for_shard(ctx.shard);
    crate::setup_env(net, traces);
    let mut rep = WorkerReport::default();
    let mut rng = ctx.rng();
    let (cases, blocks) = if ctx.thorough() { (8, 16) } else { (1, if ctx.shard % 2 == 0 { 15 } else { 10 }) };
    for _ in 0..cases {
        let cs = rng.next();
        run_case(ctx, &mut rep, cs, blocks);
    }
    rep
}
