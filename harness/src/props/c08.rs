//! C08 — signed transactions execute once, in nonce order, via a bounded pending pool.

use std::collections::{BTreeMap, BTreeSet};

use alloy_signer_local::PrivateKeySigner;
use serde_json::{json, Value};

use super::common::*;
use crate::asm;
use crate::hist::{self, Ctx, Driver, Enc, Op, Signer, Target};
use crate::report::{Spec, WorkerReport};
use crate::rng::Rng;
use crate::rpc::{self, Resp};
use crate::WorkerCtx;

pub fn spec() -> Spec {
    Spec {
        prop: "C08",
        level: "exploration",
        rule: "Pool reference model written from the statement (per signer: next nonce, waiting map nonce -> (payload, arrival block)); after every brc20_transact and every finalise the receipts (count, consecutive indexes, nonces, sender), txpool_contentFrom and eth_getTransactionCount are compared with the model; at the end the executed nonces of every signer must be 0,1,2,... each once. Exhaustive small scope: all arrival orders of nonces {0..k-1} of a fresh signer x all gap patterns from {same block,+1,+9,+10,+11} (k=3 quick, k=4 thorough) plus duplicate / replacement / stale / far-future / wrong-chain / no-chain-id (pre-EIP-155) / undecodable variants; random beyond (3 signers, nonces to 15, interleaved inscription transactions, reorgs, clearCaches). After an expired entry is dropped the model admits both 'later entries kept' and 'later entries dropped'. A third of the transactions fail when executed (revert / invalid opcode / out of gas). Window runs: a signer parks the whole admissible window (or all but one / all but the last / a random subset) in shuffled order over one to three blocks while a second signer interferes, then the predecessor arrives. Restart/expiry runs: entries parked and committed, then a restart / clearCaches / nothing, then only empty blocks with the pool compared at every height until the entries have expired. Non-trivial = script in which >=1 transaction was parked and later drained or expired; distinct by (arrival order, gaps, variant).",
        assumptions: vec!["inscription_byte_len >= raw length, so every signed transaction at the right nonce is valid and consumes its nonce".into()],
        exhaustive: false,
        min_nontrivial: 2,
    }
}

fn signer_from(seed: u64) -> Signer {
    let mut k = [0u8; 32];
    k[0] = 0x43;
    k[8..16].copy_from_slice(&seed.to_be_bytes());
    k[31] = 1;
    let key = PrivateKeySigner::from_slice(&k).expect("key");
    let addr = key.address().0 .0;
    Signer { key, addr }
}

#[derive(Clone, Debug, Default)]
struct SignerModel {
    next: u64,
    /// nonce -> (unique payload id, arrival block)
    waiting: BTreeMap<u64, (u64, u64)>,
    /// nonces whose presence is not fixed by the statement (successors of an expired entry)
    ambiguous: BTreeSet<u64>,
    executed: Vec<u64>,
}

#[derive(Clone, Debug, Default)]
struct Model {
    signers: BTreeMap<[u8; 20], SignerModel>,
}

enum Expect {
    /// executed nonces in order
    Executed(Vec<u64>),
    Nothing,
}

impl Model {
    fn transact(&mut self, who: [u8; 20], nonce: u64, payload: u64, block: u64, chain_ok: bool) -> Expect {
        let m = self.signers.entry(who).or_default();
        if !chain_ok || nonce < m.next || nonce >= m.next + 10 {
            return Expect::Nothing;
        }
        if nonce > m.next {
            m.waiting.insert(nonce, (payload, block));
            m.ambiguous.remove(&nonce);
            return Expect::Nothing;
        }
        let mut ex = vec![nonce];
        m.next += 1;
        // a waiting entry with the same nonce as an executed one can no longer execute
        m.waiting.remove(&nonce);
        loop {
            let k = m.next;
            let Some((_, arrival)) = m.waiting.get(&k).cloned() else { break };
            if m.ambiguous.contains(&k) {
                break;
            }
            if arrival + 10 > block {
                m.waiting.remove(&k);
                ex.push(k);
                m.next += 1;
            } else {
                // expired: dropped, nothing after it executes; what happens to later entries is open
                m.waiting.remove(&k);
                let later: Vec<u64> = m.waiting.keys().cloned().filter(|x| *x > k).collect();
                m.ambiguous.extend(later);
                break;
            }
        }
        m.executed.extend(ex.iter().cloned());
        Expect::Executed(ex)
    }

    fn finalise(&mut self, block: u64) {
        for m in self.signers.values_mut() {
            let gone: Vec<u64> = m.waiting.iter().filter(|(_, (_, a))| a + 10 <= block).map(|(n, _)| *n).collect();
            for n in gone {
                m.waiting.remove(&n);
                m.ambiguous.remove(&n);
            }
        }
    }
}

/// Set when a brc20_transact did not return: the rest of this worker's runs are skipped.
static HUNG: std::sync::atomic::AtomicBool = std::sync::atomic::AtomicBool::new(false);

struct Run<'a> {
    d: Driver,
    model: Model,
    snapshots: BTreeMap<i64, Model>,
    committed_model: Model,
    chain_id: u64,
    tool: String,
    uniq: u64,
    ts: u64,
    blk: Option<(u64, String)>,
    ctx: &'a WorkerCtx,
    script: Vec<String>,
    payloads: BTreeMap<u64, String>, // payload id -> input hex
}

impl<'a> Run<'a> {
    fn new(ctx: &'a WorkerCtx, net: &str) -> Option<Run<'a>> {
        if HUNG.load(std::sync::atomic::Ordering::SeqCst) {
            return None;
        }
        let mut d = new_driver("C08");
        d.inst.timeout = std::time::Duration::from_secs(30);
        d.exec(Op::Init { hash: hist::ZERO_HASH.into(), ts: 1, height: 0 });
        let pk = "5120f0f0f0f0f0f0f0f0f0f0f0f0f0f0f0f0f0f0f0f0f0f0f0f0f0f0f0f0f0f0f0".to_string();
        let h = crate::hist::bh((0xc08u64) as u64);
        let r = d.exec(Op::Deploy { pk, data: hist::hx(&asm::tool_init()), enc: Enc::Hex, ctx: Ctx { ts: 2, hash: h.clone(), idx: 0 }, iid: "c08-tool".into(), len: 100_000, txid: hist::ZERO_HASH.into() });
        let tool = hist::created_address(&r)?;
        d.exec(Op::Finalise { ts: 2, hash: h, count: 1 });
        d.exec(Op::Commit);
        let mut run = Run { d, model: Model::default(), snapshots: BTreeMap::new(), committed_model: Model::default(), chain_id: rpc::chain_id_for(net), tool, uniq: 0, ts: 10, blk: None, ctx, script: vec![], payloads: BTreeMap::new() };
        run.snapshots.insert(run.d.height, run.model.clone());
        Some(run)
    }

    fn fail(&mut self, rep: &mut WorkerReport, sig: &str, what: String, detail: Value) {
        violation(rep, "C08", self.ctx.seed, sig, what, json!({"script": self.script, "detail": detail, "last_calls": log_json(&self.d.log, 40)}));
    }

    fn block_ctx(&mut self) -> (u64, String) {
        if let Some(b) = &self.blk {
            return b.clone();
        }
        self.ts += 7;
        self.uniq += 1;
        let b = (self.ts, format!("0x{:016x}{:048x}", 0xc08c08c08c08c08cu64, self.uniq));
        self.blk = Some(b.clone());
        b
    }

    /// Submit one signed transaction; compare with the model. Returns false on violation.
    fn transact(&mut self, rep: &mut WorkerReport, s: &Signer, nonce: u64, variant: &str) -> bool {
        self.transact_payload(rep, s, nonce, variant, None)
    }

    /// `reuse`: inscribe the byte-identical transaction of an earlier payload id again.
    fn transact_payload(&mut self, rep: &mut WorkerReport, s: &Signer, nonce: u64, variant: &str, reuse: Option<u64>) -> bool {
        let (ts, hash) = self.block_ctx();
        let block = self.d.next_height();
        self.uniq += 1;
        let payload = reuse.unwrap_or(self.uniq);
        // a third of the payloads fail when executed (revert, invalid opcode, out of gas at once): a
        // failed transaction consumes its nonce like any other, the chain behind it goes on
        let data = match payload % 6 {
            1 => asm::tool_call(asm::OP_REVERT, &[asm::word_u64(payload)], &[]),
            3 => {
                let mut v = asm::tool_call(asm::OP_INVALID, &[], &[]);
                v.extend_from_slice(&payload.to_be_bytes());
                v
            }
            5 if payload % 12 == 5 => {
                let mut v = asm::tool_call(asm::OP_MSTORE, &[asm::word_u64(1 << 40)], &[]);
                v.extend_from_slice(&payload.to_be_bytes());
                v
            }
            _ => asm::tool_call(asm::OP_SSTORE, &[asm::word_u64(3), asm::word_u64(payload)], &[]),
        };
        // "no-chain": signed the pre-EIP-155 way, without any chain id - not a transaction of this chain either
        let chain_ok = variant != "wrong-chain" && variant != "no-chain";
        let chain = if variant == "no-chain" { None } else { Some(if chain_ok { self.chain_id } else { 1 }) };
        let mut raw = s.sign(chain, nonce, Some(hist::parse_addr(&self.tool)), &data);
        if variant == "undecodable" {
            raw = format!("ff{}", &raw[..raw.len() / 2]);
        }
        self.payloads.insert(payload, hist::hx(&data));
        self.script.push(format!("block {}: transact nonce {} ({}) payload {}", block, nonce, variant, payload));
        let idx = self.d.ntx;
        let r = self.d.exec(Op::Transact { raw: format!("0x{}", raw), enc: Enc::Hex, ctx: Ctx { ts, hash, idx }, iid: format!("c08-{}-{}i0", payload, self.uniq), len: 100_000, txid: crate::hist::bh((self.uniq) as u64) });
        rep.evaluations += 1;
        if variant == "undecodable" {
            if !r.is_err() {
                self.fail(rep, "undecodable-accepted", format!("an undecodable raw transaction was answered with {}", r.short()), json!({}));
                return false;
            }
            return self.compare_pool(rep, s, "after undecodable");
        }
        let expect = self.model.transact(s.addr, nonce, payload, block, chain_ok);
        let receipts = match &r {
            Resp::Ok(Value::Array(a)) => a.clone(),
            other => {
                let exp = match &expect {
                    Expect::Executed(v) => format!("execute nonces {:?}", v),
                    Expect::Nothing => "return no receipts".into(),
                };
                if matches!(other, Resp::Timeout) {
                    // the instance is most likely wedged: every further call would wait for the watchdog
                    HUNG.store(true, std::sync::atomic::Ordering::SeqCst);
                }
                let sig = if matches!(other, Resp::Timeout) { "transact-never-returned" } else if other.err_msg().map(|m| m.contains("tx_idx is different")).unwrap_or(false) { "transact-error-after-expired-successor" } else { "transact-error" };
                self.fail(rep, sig, format!("brc20_transact of a well-formed transaction answered {} where the pool model expects it to {}", other.short(), exp), json!({"nonce": nonce, "variant": variant}));
                return false;
            }
        };
        let want: Vec<u64> = match &expect {
            Expect::Executed(v) => v.clone(),
            Expect::Nothing => vec![],
        };
        if receipts.len() != want.len() {
            self.fail(rep, "receipt-count", format!("brc20_transact(nonce {}) returned {} receipts, the pool model expects {} (nonces {:?})", nonce, receipts.len(), want.len(), want), json!({"receipts": receipts.iter().map(|x| json!([x["transactionIndex"], x["status"]])).collect::<Vec<_>>()}));
            return false;
        }
        for (k, (rc, n)) in receipts.iter().zip(want.iter()).enumerate() {
            let ti = rc["transactionIndex"].as_str().and_then(|x| u64::from_str_radix(x.trim_start_matches("0x"), 16).ok());
            if ti != Some(idx + k as u64) {
                self.fail(rep, "receipt-index", format!("receipt {} of the call has transactionIndex {:?}, expected {}", k, ti, idx + k as u64), json!({}));
                return false;
            }
            if rc["from"].as_str().map(|x| x.to_lowercase()) != Some(hist::addr_hex(&s.addr)) {
                self.fail(rep, "receipt-sender", "a drained receipt has another sender".into(), json!({"receipt": rc}));
                return false;
            }
            let tx = self.d.inst.call("eth_getTransactionByHash", json!([rc["transactionHash"]]));
            let tn = tx.ok().and_then(|t| t["nonce"].as_str().and_then(|x| u64::from_str_radix(x.trim_start_matches("0x"), 16).ok()));
            if tn != Some(*n) {
                self.fail(rep, "receipt-nonce", format!("receipt {} of the call belongs to nonce {:?}, the pool model expects nonce {}", k, tn, n), json!({}));
                return false;
            }
            // the payload decides whether the execution succeeds (see transact_payload); the input of
            // the transaction tells which payload this nonce carried
            let input = tx.ok().and_then(|t| t["input"].as_str().map(|x| x.to_lowercase())).unwrap_or_default();
            let op = u8::from_str_radix(input.get(2..4).unwrap_or("00"), 16).unwrap_or(0);
            let should_succeed = op == asm::OP_SSTORE;
            if (rc["status"].as_str() == Some("0x1")) != should_succeed {
                self.fail(rep, "signed-tx-status", format!("a signed transaction at the right nonce ({}) {} although its payload {}", n, if should_succeed { "failed" } else { "succeeded" }, if should_succeed { "is a plain storage write" } else { "reverts / is invalid / runs out of gas" }), json!({"receipt": rc}));
                return false;
            }
        }
        if want.len() >= 2 {
            rep.count("drains", 1);
        }
        self.compare_pool(rep, s, "after transact")
    }

    fn compare_pool(&mut self, rep: &mut WorkerReport, s: &Signer, when: &str) -> bool {
        let r = self.d.inst.call("txpool_contentFrom", json!([hist::addr_hex(&s.addr)]));
        let mut shown: BTreeMap<u64, String> = BTreeMap::new();
        if let Resp::Ok(v) = &r {
            if let Some(by_addr) = v["pending"].as_object() {
                for (_, by_nonce) in by_addr {
                    if let Some(o) = by_nonce.as_object() {
                        for (n, tx) in o {
                            shown.insert(n.parse().unwrap_or(u64::MAX), tx["input"].as_str().unwrap_or("").to_string());
                        }
                    }
                }
            }
        } else {
            self.fail(rep, "txpool-error", format!("txpool_contentFrom failed: {}", r.short()), json!({}));
            return false;
        }
        let m = self.model.signers.entry(s.addr).or_default();
        let required: BTreeSet<u64> = m.waiting.keys().filter(|n| !m.ambiguous.contains(n)).cloned().collect();
        let allowed: BTreeSet<u64> = m.waiting.keys().cloned().collect();
        let have: BTreeSet<u64> = shown.keys().cloned().collect();
        if !required.is_subset(&have) || !have.is_subset(&allowed) {
            let (w, a) = (m.waiting.clone(), m.ambiguous.clone());
            self.fail(rep, "txpool-content", format!("{}: txpool shows nonces {:?} for the signer, the pool model has waiting {:?} (unspecified: {:?})", when, have, w.keys().collect::<Vec<_>>(), a), json!({}));
            return false;
        }
        // payload identity (replacement must show the newest)
        for (n, input) in &shown {
            if let Some((p, _)) = m.waiting.get(n) {
                if self.payloads.get(p) != Some(input) {
                    let p = *p;
                    self.fail(rep, "txpool-stale-entry", format!("txpool shows another transaction for nonce {} than the one submitted last (payload {})", n, p), json!({}));
                    return false;
                }
            }
        }
        // sync the unspecified part to what the pool shows
        let amb: Vec<u64> = m.ambiguous.iter().cloned().collect();
        for n in amb {
            if !have.contains(&n) {
                m.waiting.remove(&n);
            }
            // either way the pool has shown what it did: from here on the entry is definite
            m.ambiguous.remove(&n);
        }
        let next = m.next;
        let cnt = hist::account_nonce(&mut self.d.inst, &s.addr);
        if cnt != next {
            self.fail(rep, "nonce", format!("{}: eth_getTransactionCount = {}, the pool model says {}", when, cnt, next), json!({}));
            return false;
        }
        true
    }

    fn finalise(&mut self, rep: &mut WorkerReport, signers: &[Signer]) -> bool {
        let (ts, hash) = self.block_ctx();
        let block = self.d.next_height();
        let cnt = self.d.ntx;
        let r = self.d.exec(Op::Finalise { ts, hash, count: cnt });
        self.blk = None;
        if !r.is_ok() {
            self.fail(rep, "finalise-refused", format!("finalise with the counted transactions was refused: {}", r.short()), json!({"count": cnt}));
            return false;
        }
        self.model.finalise(block);
        self.snapshots.insert(self.d.height, self.model.clone());
        for s in signers {
            if !self.compare_pool(rep, s, "after finalise") {
                return false;
            }
        }
        true
    }

    /// Skip `n` empty blocks.
    fn skip(&mut self, rep: &mut WorkerReport, n: u64, signers: &[Signer]) -> bool {
        if n == 0 {
            return true;
        }
        self.ts += 3;
        let start = self.d.next_height();
        let r = self.d.exec(Op::Mine { n, ts: self.ts });
        if !r.is_ok() {
            self.fail(rep, "mine-refused", format!("mine refused: {}", r.short()), json!({}));
            return false;
        }
        for b in start..start + n {
            self.model.finalise(b);
            self.snapshots.insert(b as i64, self.model.clone());
        }
        self.script.push(format!("skip {} empty blocks", n));
        for s in signers {
            if !self.compare_pool(rep, s, "after empty blocks") {
                return false;
            }
        }
        true
    }
}

fn permutations(n: usize) -> Vec<Vec<u64>> {
    fn rec(cur: &mut Vec<u64>, used: &mut Vec<bool>, n: usize, out: &mut Vec<Vec<u64>>) {
        if cur.len() == n {
            out.push(cur.clone());
            return;
        }
        for i in 0..n {
            if !used[i] {
                used[i] = true;
                cur.push(i as u64);
                rec(cur, used, n, out);
                cur.pop();
                used[i] = false;
            }
        }
    }
    let mut out = Vec::new();
    rec(&mut vec![], &mut vec![false; n], n, &mut out);
    out
}

const GAPS: [u64; 5] = [0, 1, 9, 10, 11];

fn exhaustive(ctx: &WorkerCtx, rep: &mut WorkerReport, net: &str) {
    let k = if ctx.thorough() { 4 } else { 3 };
    let perms = permutations(k);
    let ngap = GAPS.len().pow(k as u32 - 1);
    let variants = ["plain", "duplicate", "replace", "noise", "reinscribe"];
    let mut all: Vec<(usize, usize, &str)> = Vec::new();
    for p in 0..perms.len() {
        for g in 0..ngap {
            for v in variants {
                if v != "plain" && (g + p) % 4 != 0 {
                    continue; // variants on a quarter of the space
                }
                all.push((p, g, v));
            }
        }
    }
    rep.count("scripts_in_space", if ctx.shard == 0 { all.len() as u64 } else { 0 });
    let Some(mut run) = Run::new(ctx, net) else {
        rep.inconclusive("setup failed");
        return;
    };
    let mut sidx = 0u64;
    for (i, (p, g, v)) in all.iter().enumerate() {
        if i as u64 % ctx.nshards != ctx.shard {
            continue;
        }
        sidx += 1;
        let s = signer_from((ctx.shard << 32) | sidx);
        let order = &perms[*p];
        let mut gaps = Vec::new();
        let mut gg = *g;
        for _ in 0..k - 1 {
            gaps.push(GAPS[gg % GAPS.len()]);
            gg /= GAPS.len();
        }
        run.script = vec![format!("fresh signer; arrival order {:?}, gaps {:?}, variant {}", order, gaps, v)];
        let signers = [s.clone()];
        let mut parked_any = false;
        let mut ok = true;
        for (j, n) in order.iter().enumerate() {
            if j > 0 {
                let gap = gaps[j - 1];
                if gap > 0 {
                    ok = ok && run.finalise(rep, &signers) && run.skip(rep, gap - 1, &signers);
                }
            }
            if !ok {
                break;
            }
            let next = run.model.signers.get(&s.addr).map(|m| m.next).unwrap_or(0);
            if *n > next {
                parked_any = true;
            }
            if *v == "reinscribe" && j > 0 {
                // the byte-identical transaction of every still-waiting nonce is inscribed again
                let waiting: Vec<(u64, u64)> = run.model.signers.get(&s.addr).map(|m| m.waiting.iter().map(|(n, (p, _))| (*n, *p)).collect()).unwrap_or_default();
                for (wn, wp) in waiting {
                    ok = ok && run.transact_payload(rep, &s, wn, "reinscribe-identical", Some(wp));
                }
                if !ok {
                    break;
                }
            }
            ok = run.transact(rep, &s, *n, "plain");
            if ok && *v == "duplicate" && j == 0 {
                // the identical nonce again with another payload (if waiting: replacement; if executed: stale)
                ok = run.transact(rep, &s, *n, "duplicate");
            }
            if ok && *v == "replace" && *n > 0 && j == 0 {
                ok = run.transact(rep, &s, *n, "replace");
            }
            if ok && *v == "noise" {
                ok = run.transact(rep, &s, *n + 10 + j as u64, "far-future") && run.transact(rep, &s, *n, "wrong-chain") && run.transact(rep, &s, *n + (j as u64 % 2), "no-chain") && (j != 1 || run.transact(rep, &s, *n, "undecodable"));
            }
            if !ok {
                break;
            }
        }
        if ok {
            // let everything expire, then the pool must be empty and the executed nonces consecutive
            ok = run.finalise(rep, &signers) && run.skip(rep, 11, &signers);
        }
        if !ok {
            drop_driver(run.d);
            return;
        }
        let m = run.model.signers.get(&s.addr).cloned().unwrap_or_default();
        if !m.waiting.is_empty() {
            run.fail(rep, "pool-not-empty", "entries still wait 11 blocks after the last submission".into(), json!({"waiting": m.waiting.keys().collect::<Vec<_>>()}));
            drop_driver(run.d);
            return;
        }
        let consecutive = m.executed.iter().enumerate().all(|(i, n)| *n == i as u64);
        if !consecutive {
            run.fail(rep, "nonce-order", format!("executed nonces {:?} are not 0,1,2,...", m.executed), json!({}));
            drop_driver(run.d);
            return;
        }
        if parked_any {
            rep.nontrivial(format!("{:?}:{:?}:{}", order, gaps, v));
        }
        rep.count("scripts", 1);
        if rep.samples.len() < 2 && parked_any {
            rep.sample(json!({"script": run.script.clone(), "executed": m.executed}));
        }
        if sidx % 40 == 0 {
            run.d.exec(Op::Commit);
            run.committed_model = run.model.clone();
        }
    }
    drop_driver(run.d);
}

fn random_run(ctx: &WorkerCtx, rep: &mut WorkerReport, net: &str, case_seed: u64) {
    let mut rng = Rng::new(case_seed);
    let Some(mut run) = Run::new(ctx, net) else { return };
    let signers: Vec<Signer> = (0..3).map(|i| signer_from(case_seed.wrapping_mul(31) + i)).collect();
    run.script = vec![format!("random run seed {}", case_seed)];
    let pk = "5120f1f1f1f1f1f1f1f1f1f1f1f1f1f1f1f1f1f1f1f1f1f1f1f1f1f1f1f1f1f1f1".to_string();
    let steps = if ctx.thorough() { 160 } else { 70 };
    let mut parked = 0u64;
    for _ in 0..steps {
        let ok = match rng.weighted(&[40, 12, 10, 6, 3, 3, 6]) {
            0 => {
                let s = rng.pick(&signers).clone();
                let next = run.model.signers.get(&s.addr).map(|m| m.next).unwrap_or(0);
                let nonce = match rng.below(10) {
                    0 | 1 | 2 | 3 => next,
                    4 | 5 | 6 => next + rng.range(1, 3),
                    7 => next + rng.range(4, 9),
                    8 => next + rng.range(10, 12),
                    _ => next.saturating_sub(1),
                };
                if nonce > next && nonce < next + 10 {
                    parked += 1;
                }
                let variant = match rng.below(20) {
                    0 => "wrong-chain",
                    2 => "no-chain",
                    1 => "undecodable",
                    _ => "plain",
                };
                let waiting: Vec<(u64, u64)> = run.model.signers.get(&s.addr).map(|m| m.waiting.iter().map(|(n, (p, _))| (*n, *p)).collect()).unwrap_or_default();
                if !waiting.is_empty() && rng.chance(1, 6) {
                    let (wn, wp) = *rng.pick(&waiting);
                    run.transact_payload(rep, &s, wn, "reinscribe-identical", Some(wp))
                } else {
                    run.transact(rep, &s, nonce, variant)
                }
            }
            1 => run.finalise(rep, &signers),
            2 => run.finalise(rep, &signers) && run.skip(rep, *rng.pick(&[1u64, 1, 2, 8, 9, 10]), &signers),
            3 => {
                // an inscription transaction interleaved in the block
                let (ts, hash) = run.block_ctx();
                let idx = run.d.ntx;
                run.uniq += 1;
                let data = asm::tool_call(asm::OP_INC, &[asm::word_u64(5)], &[]);
                let t = run.tool.clone();
                let u = run.uniq;
                run.d.exec(Op::Call { pk: pk.clone(), target: Target::Addr(t), data: Some(hist::hx(&data)), enc: Enc::Hex, ctx: Ctx { ts, hash, idx }, iid: format!("c08-i{}i0", u), len: 100_000, txid: hist::ZERO_HASH.into() }).is_ok()
            }
            4 => {
                if run.blk.is_some() && !run.finalise(rep, &signers) {
                    false
                } else {
                    let r = run.d.exec(Op::Commit);
                    run.committed_model = run.model.clone();
                    r.is_ok()
                }
            }
            5 => {
                // reorg a few blocks back
                if run.blk.is_some() && !run.finalise(rep, &signers) {
                    false
                } else if run.d.height > 4 {
                    let n = (run.d.height - rng.range(1, 6) as i64).max(1);
                    if run.d.max_ever - n <= 10 {
                        let r = run.d.exec(Op::Reorg { n: n as u64 });
                        if r.is_ok() {
                            if let Some(m) = run.snapshots.get(&n) {
                                run.model = m.clone();
                            }
                            run.snapshots.retain(|k, _| *k <= n);
                            run.committed_model = run.model.clone();
                            run.script.push(format!("reorg to {}", n));
                            rep.count("reorgs", 1);
                            signers.iter().all(|s| run.compare_pool(rep, s, "after reorg"))
                        } else {
                            true
                        }
                    } else {
                        true
                    }
                } else {
                    true
                }
            }
            _ => {
                // clearCaches or a restart: back to the last commit (also mid-block)
                let restart = rng.chance(1, 2);
                let r = run.d.exec(if restart { Op::Reopen } else { Op::Clear });
                if r.is_ok() {
                    run.model = run.committed_model.clone();
                    run.blk = None;
                    let hh = run.d.height;
                    run.snapshots.retain(|k, _| *k <= hh);
                    run.snapshots.insert(hh, run.model.clone());
                    run.script.push(if restart { "restart".into() } else { "clearCaches".into() });
                    signers.iter().all(|s| run.compare_pool(rep, s, if restart { "after a restart" } else { "after clearCaches" }))
                } else {
                    true
                }
            }
        };
        if !ok {
            drop_driver(run.d);
            return;
        }
    }
    let _ = run.finalise(rep, &signers);
    for s in &signers {
        let m = run.model.signers.get(&s.addr).cloned().unwrap_or_default();
        if m.next != m.executed.len() as u64 && false {
            // executed list is rolled back together with snapshots, so the equation holds per snapshot
        }
    }
    if parked > 0 {
        rep.nontrivial(format!("random:{:x}", case_seed));
    }
    rep.count("random_runs", 1);
    drop_driver(run.d);
}

/// Long waiting chains: a signer parks most or all of the admissible window (nonces next+1 .. next+9)
/// in shuffled order over one to three blocks, a second signer interferes, then the missing
/// predecessor arrives and the whole chain must run in that one call.
fn window_run(ctx: &WorkerCtx, rep: &mut WorkerReport, net: &str, case_seed: u64) {
    let mut rng = Rng::new(case_seed);
    let Some(mut run) = Run::new(ctx, net) else { return };
    let signers: Vec<Signer> = (0..2).map(|i| signer_from(case_seed.wrapping_mul(131) + 7 + i)).collect();
    run.script = vec![format!("window run seed {}", case_seed)];
    let rounds = if ctx.thorough() { 6 } else { 3 };
    for round in 0..rounds {
        let s = signers[0].clone();
        let other = signers[1].clone();
        let next = run.model.signers.get(&s.addr).map(|m| m.next).unwrap_or(0);
        let shape = rng.below(4);
        let gap = rng.range(2, 8);
        let mut set: Vec<u64> = match shape {
            0 => (1..=9).collect(),                                   // the whole window
            1 => (1..=9).filter(|k| *k != gap).collect(),             // one gap
            2 => (1..=8).collect(),                                   // all but the last admissible
            _ => (1..=9).filter(|_| rng.chance(2, 3)).collect(),
        };
        rng.shuffle(&mut set);
        let per_block = *rng.pick(&[9usize, 9, 5, 3]);
        let mut ok = true;
        for (i, k) in set.iter().enumerate() {
            if i > 0 && i % per_block == 0 {
                ok = ok && run.finalise(rep, &signers);
            }
            ok = ok && run.transact(rep, &s, next + k, "plain");
            if ok && rng.chance(1, 4) {
                let on = run.model.signers.get(&other.addr).map(|m| m.next).unwrap_or(0);
                ok = run.transact(rep, &other, on + rng.below(3), "plain");
            }
            if !ok {
                break;
            }
        }
        if ok && rng.chance(1, 3) {
            ok = run.finalise(rep, &signers);
        }
        // the predecessor: everything consecutive behind it runs now
        ok = ok && run.transact(rep, &s, next, "plain");
        if ok {
            let m = run.model.signers.get(&s.addr).cloned().unwrap_or_default();
            rep.nontrivial(format!("window:shape{}:{}-parked:{}-left", shape, set.len(), m.waiting.len()));
            rep.count("window_rounds", 1);
            // the nonce just beyond the drained chain
            ok = run.transact(rep, &s, m.next, "plain");
        }
        ok = ok && run.finalise(rep, &signers);
        if ok && round % 2 == 1 {
            ok = run.skip(rep, 11, &signers);
        }
        if !ok {
            drop_driver(run.d);
            return;
        }
    }
    drop_driver(run.d);
}

/// Waiting transactions across a restart: parked and committed, the process restarts (or the caches
/// are cleared), and then nothing but empty blocks follows until the entries are due to expire. The
/// pool shown must follow the model at every step, whatever the new process did or did not do before.
fn restart_expiry_run(ctx: &WorkerCtx, rep: &mut WorkerReport, net: &str, case_seed: u64) {
    let mut rng = Rng::new(case_seed);
    let Some(mut run) = Run::new(ctx, net) else { return };
    let signers: Vec<Signer> = (0..2).map(|i| signer_from(case_seed.wrapping_mul(977) + 3 + i)).collect();
    run.script = vec![format!("restart/expiry run seed {}", case_seed)];
    let rounds = if ctx.thorough() { 5 } else { 2 };
    for _ in 0..rounds {
        let mut ok = true;
        // park a few future nonces, possibly over two blocks
        for s in &signers {
            let next = run.model.signers.get(&s.addr).map(|m| m.next).unwrap_or(0);
            for k in 0..rng.range(1, 3) {
                ok = ok && run.transact(rep, s, next + 1 + k + rng.below(3), "plain");
            }
            if rng.chance(1, 3) {
                ok = ok && run.finalise(rep, &signers);
            }
        }
        ok = ok && run.finalise(rep, &signers);
        if ok && rng.chance(1, 2) {
            ok = run.skip(rep, rng.range(1, 4), &signers);
        }
        if !ok {
            break;
        }
        // commit, then restart / clearCaches / nothing
        run.d.exec(Op::Commit);
        run.committed_model = run.model.clone();
        run.script.push("commit".into());
        let what = rng.below(3);
        if what < 2 {
            let r = run.d.exec(if what == 0 { Op::Reopen } else { Op::Clear });
            if !r.is_ok() {
                rep.inconclusive(format!("restart failed: {}", r.short()));
                break;
            }
            run.model = run.committed_model.clone();
            run.blk = None;
            let hh = run.d.height;
            run.snapshots.retain(|k, _| *k <= hh);
            run.script.push(if what == 0 { "restart".into() } else { "clearCaches".into() });
            ok = signers.iter().all(|s| run.compare_pool(rep, s, "right after the restart"));
        }
        // only empty blocks until everything has expired: one by one, so that the pool is compared
        // at every height (the entries leave exactly ten blocks after they were parked)
        let mut left = 12;
        while ok && left > 0 {
            let n = if rng.chance(1, 4) { rng.range(2, 5).min(left) } else { 1 };
            ok = run.skip(rep, n, &signers);
            left -= n;
        }
        if !ok {
            break;
        }
        rep.nontrivial(format!("restart-expiry:{}", ["restart", "clearCaches", "same-process"][what as usize]));
        rep.count("restart_expiry_rounds", 1);
    }
    drop_driver(run.d);
}

pub fn worker(ctx: &WorkerCtx) -> WorkerReport {
    let (net, traces) = net_for_shard(ctx.shard);
    crate::setup_env(net, traces);
    let mut rep = WorkerReport::default();
    exhaustive(ctx, &mut rep, net);
    let mut rng = ctx.rng();
    for _ in 0..(if ctx.thorough() { 12 } else { 2 }) {
        let cs = rng.next();
        random_run(ctx, &mut rep, net, cs);
    }
    for _ in 0..(if ctx.thorough() { 6 } else { 1 }) {
        let cs = rng.next();
        window_run(ctx, &mut rep, net, cs);
    }
    for _ in 0..(if ctx.thorough() { 4 } else { 1 }) {
        let cs = rng.next();
        restart_expiry_run(ctx, &mut rep, net, cs);
    }
    rep
}
