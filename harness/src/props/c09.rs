//! C09 — no request can crash, hang or wedge the server.

use std::time::Duration;

use base64::prelude::BASE64_STANDARD_NO_PAD;
use base64::Engine;
use serde_json::{json, Value};

use super::c12::{template, Tmpl, PK};
use super::common::*;
use crate::asm;
use crate::fakebtc;
use crate::hist::{self, Signer};
use crate::pre;
use crate::report::{Spec, WorkerReport};
use crate::rng::Rng;
use crate::rpc::{self, Inst, Resp};
use crate::WorkerCtx;

pub fn spec() -> Spec {
    Spec {
        prop: "C09",
        level: "exploration",
        rule: "Structure-aware fuzzing of every registered method (names from the real method table) against the real engine in-process: well-formed templates with typed mutation (boundary integers, string-typed numbers, empty/odd/non-hex/huge strings, long strings of mixed UTF-8 character widths (any fixed byte offset falls inside a character), every base64 prefix byte, truncated and bomb frames, null/array/object swaps, missing/extra fields, positional vs named), random and mutated bytecode as init code / call data, ABI-valid boundary inputs and ABI-invalid bytes to every custom and standard precompile through eth_call, eth_callMany (with Bitcoin-transaction overrides) and executed transactions, in engine states {empty, initialised, mid-block, after reorg, after clearCaches}. Oracles: process-wide panic hook (any panic while serving = violation; the shipped binary aborts), a liveness probe after requests (eth_blockNumber, a block read, and a write round that must raise the height by exactly one), logical hang witnesses (brc20_mine(k) must return with height = start + k), watchdog => inconclusive, unless the cheapest database read then hangs twice as well while a request that needs no database is answered at once (wedged server = violation). Sanitizer pass: on one shard in eight a small worker of this check is re-executed under valgrind memcheck (every native library instrumented: RocksDB, zstd, secp256k1, the revm precompile back ends); any memcheck report = violation. The build mirrors release arithmetic (overflow checks off). Non-trivial = request that reached a handler; distinct by (method, outcome class, mutation class).",
        assumptions: vec![
            "the fake Bitcoin node is up: loss of the node and its documented 'Bitcoin RPC unreachable' panic are environment faults".into(),
            "brc20_mine is only asked for small counts: running time proportional to the requested count is by design".into(),
        ],
        exhaustive: false,
        min_nontrivial: 2,
    }
}

fn boundary_int(rng: &mut Rng) -> Value {
    match rng.below(16) {
        0 => json!(0),
        1 => json!(1),
        2 => json!(4294967295u64),
        3 => json!(4294967296u64),
        4 => json!(9007199254740992u64),
        5 => json!(9223372036854775807u64),
        6 => json!(9223372036854775808u64),
        7 => json!(18446744073709551615u64),
        8 => json!(-1),
        9 => json!(1.5),
        10 => json!("12"),
        11 => json!("0x10"),
        12 => serde_json::from_str("18446744073709551616").unwrap_or(json!(0)),
        13 => json!(255),
        14 => json!(65536),
        _ => json!(rng.below(1000)),
    }
}

/// A string of `bytes` to `bytes + 3` bytes made of characters of mixed UTF-8 widths (1..4 bytes), so
/// that any fixed byte offset is likely to fall inside a character.
fn mixed_width_string(rng: &mut Rng, bytes: usize) -> String {
    let pool = ['a', 'Z', '7', '-', 'é', 'ß', 'Σ', '€', '漢', '\u{3000}', '😀', '𝔘'];
    let mut s = String::new();
    while s.len() < bytes {
        s.push(*rng.pick(&pool));
    }
    s
}

fn weird_string(rng: &mut Rng) -> Value {
    match rng.below(21) {
        18 => {
            let n = *rng.pick(&[31usize, 32, 63, 64, 255, 256, 300, 301, 511, 512, 1000, 1024, 4096]);
            json!(mixed_width_string(rng, n))
        }
        19 => {
            let n = rng.range(1, 1500) as usize;
            json!(mixed_width_string(rng, n))
        }
        20 => {
            let n = rng.range(250, 310) as usize;
            json!(format!("{}{}", "a".repeat(n), mixed_width_string(rng, 40)))
        }
        0 => json!(""),
        1 => json!("0x"),
        2 => json!("0x0"),
        3 => json!("0x123"),
        4 => json!("zz"),
        5 => json!("0xzz"),
        6 => json!("a".repeat(100_000)),
        7 => json!(format!("0x{}", "ab".repeat(40_000))),
        8 => json!("\u{0}\u{1}"),
        9 => json!("ÄÖü🚀"),
        10 => json!("latest"),
        11 => json!("pending"),
        12 => json!("earliest"),
        13 => json!("0xffffffffffffffffffffffffffffffffffffffffffffffffffffffffffffffff"),
        14 => json!("0xffffffffffffffffffffffffffffffffffffffff"),
        15 => json!("-1"),
        16 => json!("0x10000000000000000"),
        _ => json!(hex::encode(rng.bytes_upto(40))),
    }
}

fn weird_base64(rng: &mut Rng) -> Value {
    let b = match rng.below(12) {
        0 => return json!(""),
        1 => return json!("="),
        2 => return json!("===="),
        3 => return json!("A"),
        4 => {
            let mut v = vec![(rng.next() & 0xff) as u8];
            let n = rng.below(50) as usize;
            v.extend_from_slice(&rng.bytes(n));
            v
        }
        5 => vec![2, 0x28, 0xb5, 0x2f, 0xfd],
        6 => {
            let mut dst = vec![0u8; 4096];
            let n = zstd_safe::compress(dst.as_mut_slice(), &vec![0u8; 3 * 1024 * 1024], 1).unwrap_or(0);
            let mut v = vec![2u8];
            v.extend_from_slice(&dst[..n]);
            v
        }
        7 => {
            let mut v = vec![1u8];
            for _ in 0..5000 {
                v.extend_from_slice(&[0xff, 0xff]);
            }
            v
        }
        8 => vec![1, 0xff],
        9 => vec![0],
        10 => {
            let mut v = vec![0u8];
            v.extend_from_slice(&asm::tool_init());
            v
        }
        _ => {
            let mut v = vec![1u8];
            v.extend_from_slice(&nada::encode(asm::tool_call(asm::OP_INC, &[asm::word_u64(1)], &[])));
            v
        }
    };
    let mut s = BASE64_STANDARD_NO_PAD.encode(b);
    if rng.chance(1, 4) {
        s.push_str("==");
    }
    json!(s)
}

fn mutate_value(rng: &mut Rng, v: &Value, depth: u32) -> Value {
    match rng.below(10) {
        0 => Value::Null,
        1 => json!([]),
        2 => json!({}),
        3 => boundary_int(rng),
        4 => weird_string(rng),
        5 => json!(true),
        _ => match v {
            Value::Number(_) => boundary_int(rng),
            Value::String(_) => {
                if rng.chance(1, 4) {
                    boundary_int(rng)
                } else {
                    weird_string(rng)
                }
            }
            Value::Array(a) if depth < 3 && !a.is_empty() => {
                let mut a = a.clone();
                let i = rng.below(a.len() as u64) as usize;
                a[i] = mutate_value(rng, &a[i].clone(), depth + 1);
                if rng.chance(1, 5) {
                    a.push(weird_string(rng));
                }
                if rng.chance(1, 8) {
                    a.truncate(a.len().saturating_sub(1));
                }
                Value::Array(a)
            }
            Value::Object(o) if depth < 3 && !o.is_empty() => {
                let mut o = o.clone();
                let keys: Vec<String> = o.keys().cloned().collect();
                let k = rng.pick(&keys).clone();
                if rng.chance(1, 6) {
                    o.remove(&k);
                } else {
                    let nv = if k.contains("base64") { weird_base64(rng) } else { mutate_value(rng, &o[&k].clone(), depth + 1) };
                    o.insert(k, nv);
                }
                if rng.chance(1, 10) {
                    o.insert("unexpected_field".into(), json!(1));
                }
                Value::Object(o)
            }
            _ => weird_string(rng),
        },
    }
}

/// Positional form of a named parameter object, in declaration order of the API.
fn to_positional(method: &str, p: &Value) -> Option<Value> {
    let order: &[&str] = match method {
        "brc20_mine" => &["block_count", "timestamp"],
        "brc20_finaliseBlock" => &["timestamp", "hash", "block_tx_count"],
        "brc20_reorg" => &["latest_valid_block_number"],
        "brc20_balance" => &["pkscript", "ticker"],
        "brc20_deposit" => &["to_pkscript", "ticker", "amount", "timestamp", "hash", "tx_idx", "inscription_id"],
        "brc20_withdraw" => &["from_pkscript", "ticker", "amount", "timestamp", "hash", "tx_idx", "inscription_id"],
        "brc20_deploy" => &["from_pkscript", "data", "base64_data", "timestamp", "hash", "tx_idx", "inscription_id", "inscription_byte_len", "op_return_tx_id"],
        "brc20_initialise" => &["genesis_hash", "genesis_timestamp", "genesis_height"],
        _ => return None,
    };
    let o = p.as_object()?;
    Some(Value::Array(order.iter().map(|k| o.get(*k).cloned().unwrap_or(Value::Null)).collect()))
}

fn pc_addr(a: u64) -> String {
    format!("0x{:040x}", a)
}

/// ABI-valid boundary inputs and ABI-invalid bytes for the precompiles.
fn precompile_input(rng: &mut Rng) -> (u64, Vec<u8>) {
    let chain = fakebtc::chain();
    match rng.below(12) {
        0 | 1 | 2 => {
            // getLockedPkscript: pkscript lengths 0..80, lock counts at the edges
            let len = *rng.pick(&[0usize, 1, 2, 3, 20, 22, 33, 34, 35, 75, 76, 80, 520, 521]);
            let lock = *rng.pick(&[0u64, 1, 16, 17, 127, 128, 255, 256, 32767, 32768, 65535, 65536, u64::MAX]);
            let mut pk = rng.bytes(len);
            if len >= 2 && rng.chance(1, 2) {
                pk[0] = 0x51;
                pk[1] = 0x20;
            }
            let mut w = asm::word_u64(lock);
            if rng.chance(1, 10) {
                w = [0xff; 32];
            }
            (pre::PC_LOCKED, pre::get_locked_pkscript(&pk, w))
        }
        3 | 4 => {
            let t = &chain.txs[rng.below(chain.txs.len() as u64) as usize];
            let txid = if rng.chance(1, 5) { rng.b32() } else { t.txid_b32 };
            let vout = *rng.pick(&[0u64, 1, 2, 3, 11, 12, 13, u64::MAX]);
            let sat = *rng.pick(&[0u64, 1, 545, 546, 547, 1_000_000_000, u64::MAX]);
            (pre::PC_LASTSAT, pre::get_last_sat_location(&txid, vout, sat))
        }
        5 | 6 => {
            let t = &chain.txs[rng.below(chain.txs.len() as u64) as usize];
            let txid = if rng.chance(1, 5) { rng.b32() } else { t.txid_b32 };
            (pre::PC_TXDETAILS, pre::get_tx_details(&txid))
        }
        7 => {
            let pk = hex::decode("00142b05d564e6a7a33c087f16e0f730d1440123799d").unwrap();
            let sig_len = *rng.pick(&[0usize, 1, 64, 107, 108, 1000, 40000]);
            let msg_len = *rng.pick(&[0usize, 11, 32768, 40000]);
            let pkv = if rng.chance(1, 3) { rng.bytes_upto(40) } else { pk };
            let msg = rng.bytes(msg_len);
            let sig = rng.bytes(sig_len);
            (pre::PC_BIP322, pre::bip322_verify(&pkv, &msg, &sig))
        }
        8 => (pre::PC_TXID, if rng.chance(1, 2) { pre::get_tx_id() } else { rng.bytes_upto(10) }),
        9 => {
            // ABI-invalid bytes to a custom precompile
            let a = *rng.pick(&[pre::PC_TXID, pre::PC_LOCKED, pre::PC_LASTSAT, pre::PC_TXDETAILS, pre::PC_BIP322]);
            let n = *rng.pick(&[0usize, 3, 4, 5, 35, 36, 68, 100, 4000]);
            let mut b = rng.bytes(n);
            if n >= 4 && rng.chance(1, 2) {
                // right selector, broken body (huge offsets/lengths)
                let valid = match a {
                    pre::PC_LOCKED => pre::get_locked_pkscript(&[1, 2, 3], asm::word_u64(5)),
                    pre::PC_BIP322 => pre::bip322_verify(&[1], &[2], &[3]),
                    pre::PC_LASTSAT => pre::get_last_sat_location(&[1; 32], 0, 0),
                    _ => pre::get_tx_details(&[1; 32]),
                };
                b[..4].copy_from_slice(&valid[..4]);
                for x in b.iter_mut().skip(4).take(64) {
                    if rng.chance(1, 2) {
                        *x = 0xff;
                    }
                }
            }
            (a, b)
        }
        _ => {
            let std = pre::standard_inputs();
            let (a, mut input) = std[rng.below(std.len() as u64) as usize].clone();
            match rng.below(4) {
                0 => input = rng.bytes_upto(300),
                1 => {
                    if !input.is_empty() {
                        let i = rng.below(input.len() as u64) as usize;
                        input[i] ^= 0xff;
                    }
                }
                2 => input.extend_from_slice(&vec![0xff; 64]),
                _ => {}
            }
            (a, input)
        }
    }
}

fn crafted_btc_overrides(rng: &mut Rng) -> (Value, [u8; 32]) {
    use bitcoin::absolute::LockTime;
    use bitcoin::consensus::encode::serialize;
    use bitcoin::hashes::Hash;
    use bitcoin::transaction::Version;
    use bitcoin::{Amount, OutPoint, ScriptBuf, Sequence, Transaction, TxIn, TxOut, Txid, Witness};
    let prev = Transaction {
        version: Version::TWO,
        lock_time: LockTime::ZERO,
        input: vec![TxIn { previous_output: OutPoint { txid: Txid::all_zeros(), vout: u32::MAX }, script_sig: ScriptBuf::new(), sequence: Sequence::MAX, witness: Witness::new() }],
        output: vec![TxOut { value: Amount::from_sat(if rng.chance(1, 2) { u64::MAX } else { 1000 }), script_pubkey: ScriptBuf::from_bytes(rng.bytes_upto(40)) }],
    };
    let nin = *rng.pick(&[0usize, 1, 2]);
    let tx = Transaction {
        version: Version::TWO,
        lock_time: LockTime::ZERO,
        input: (0..nin).map(|i| TxIn { previous_output: OutPoint { txid: prev.compute_txid(), vout: if rng.chance(1, 3) { 7 } else { i as u32 % 1 } }, script_sig: ScriptBuf::new(), sequence: Sequence::MAX, witness: Witness::new() }).collect(),
        output: (0..rng.below(4)).map(|_| TxOut { value: Amount::from_sat(*rng.pick(&[0u64, 1, u64::MAX, u64::MAX / 2 + 1])), script_pubkey: ScriptBuf::from_bytes(rng.bytes_upto(50)) }).collect(),
    };
    let idhex = |t: &Transaction| t.compute_txid().to_string();
    let mut id = [0u8; 32];
    id.copy_from_slice(&hex::decode(idhex(&tx)).unwrap());
    let mut m = serde_json::Map::new();
    m.insert(format!("0x{}", idhex(&tx)), json!(hist::hx(&serialize(&tx))));
    if rng.chance(2, 3) {
        m.insert(format!("0x{}", idhex(&prev)), json!(hist::hx(&serialize(&prev))));
    }
    if rng.chance(1, 6) {
        m.insert(format!("0x{}", hex::encode(rng.b32())), json!(hist::hx(&rng.bytes(30))));
    }
    (json!({"opReturnTxIds": [hist::ZERO_HASH], "bitcoinTxHexes": Value::Object(m)}), id)
}

struct Fz {
    inst: Inst,
    st: Tmpl,
    state: &'static str,
    open_block: Option<(u64, String, u64)>,
    height: i64,
    /// nonce of a signed transaction of signer 53 that is waiting in the pool (to be replaced next)
    waiting: Option<u64>,
}

fn hexq(r: &Resp) -> Option<u64> {
    r.ok().and_then(|v| v.as_str()).and_then(|s| u64::from_str_radix(s.trim_start_matches("0x"), 16).ok())
}

impl Fz {
    fn new(state: &'static str, rng: &mut Rng) -> Option<Fz> {
        let dir = rpc::fresh_dir("C09");
        let mut inst = Inst::open(&dir).ok()?;
        inst.timeout = Duration::from_secs(25);
        let mut st = Tmpl { tool: "0x00000000000000000000000000000000000000aa".into(), tx_hash: hist::ZERO_HASH.into(), block_hash: hist::ZERO_HASH.into(), fresh_hash: crate::hist::bh((0xf09u64) as u64), raw_tx: "0x".into(), next_height: 0, n: 0 };
        let mut open_block = None;
        if state != "empty" {
            inst.call("brc20_initialise", json!({"genesis_hash": hist::ZERO_HASH, "genesis_timestamp": 1, "genesis_height": 0}));
            let bh = crate::hist::bh((0xc09u64) as u64);
            let r = inst.call("brc20_deploy", json!({"from_pkscript": PK, "data": hist::hx(&asm::tool_init()), "timestamp": 2, "hash": bh, "tx_idx": 0, "inscription_id": "c12-setup-tool", "inscription_byte_len": 100000, "op_return_tx_id": hist::ZERO_HASH}));
            st.tool = hist::created_address(&r)?;
            st.tx_hash = hist::receipts_in(&r)[0]["transactionHash"].as_str()?.to_string();
            st.block_hash = bh.clone();
            inst.call("brc20_deposit", json!({"to_pkscript": PK, "ticker": "ordi", "amount": "0x100", "timestamp": 2, "hash": bh, "tx_idx": 1, "inscription_id": "c09-dep"}));
            inst.call("brc20_finaliseBlock", json!({"timestamp": 2, "hash": bh, "block_tx_count": 2}));
            inst.call("brc20_mine", json!({"block_count": 3, "timestamp": 3}));
            let s = Signer::new(51);
            st.raw_tx = format!("0x{}", s.sign(Some(rpc::chain_id_for("regtest")), 0, Some(hist::parse_addr(&st.tool)), &asm::tool_call(asm::OP_INC, &[asm::word_u64(2)], &[])));
            match state {
                "after-reorg" => {
                    inst.call("brc20_commitToDatabase", json!([]));
                    inst.call("brc20_reorg", json!({"latest_valid_block_number": 3}));
                }
                "after-clear" => {
                    inst.call("brc20_commitToDatabase", json!([]));
                    inst.call("brc20_mine", json!({"block_count": 2, "timestamp": 4}));
                    inst.call("brc20_clearCaches", json!([]));
                }
                "mid-block" => {
                    let h = crate::hist::bh((0x09b10cu64 + rng.below(1000)) as u64);
                    inst.call("brc20_deposit", json!({"to_pkscript": PK, "ticker": "ordi", "amount": "0x1", "timestamp": 9, "hash": h, "tx_idx": 0, "inscription_id": "c09-mid"}));
                    open_block = Some((9, h, 1));
                }
                _ => {}
            }
        }
        let height = hexq(&inst.call("eth_blockNumber", json!([]))).map(|h| h as i64).unwrap_or(-1);
        let height = if state == "empty" { -1 } else { height };
        st.next_height = (height + 1) as u64;
        Some(Fz { inst, st, state, open_block, height, waiting: None })
    }
}

fn panic_sig(msg: &str) -> String {
    // "<message> @ <file>:<line>" -> stable signature on the in-repo location (or dependency crate)
    let loc = msg.rsplit(" @ ").next().unwrap_or("");
    let loc = loc.trim_start_matches("/repo/");
    let loc = if let Some(i) = loc.find("/registry/src/") { loc[i + 14..].splitn(2, '/').nth(1).unwrap_or(loc).to_string() } else { loc.to_string() };
    format!("panic:{}", loc)
}

/// Returns Some(true) = round completed, Some(false) = round ended by a violation, None = the
/// worker must stop (a handler is still running in this process).
fn fuzz(ctx: &WorkerCtx, rep: &mut WorkerReport, rng: &mut Rng, state: &'static str, names: &[String], nreq: u64) -> Option<bool> {
    let Some(mut fz) = Fz::new(state, rng) else {
        rep.inconclusive(format!("could not set up engine state {}", state));
        return Some(true);
    };
    let probe_every = if ctx.thorough() { 3 } else { 4 };
    for k in 0..nreq {
        fz.st.n += 1;
        fz.st.fresh_hash = crate::hist::bh((0xf09_0000u64 + fz.st.n) as u64);
        // choose a request
        let (method, params, mclass): (String, Value, &str) = match rng.below(10) {
            0 | 1 => {
                // precompiles through eth_call / eth_callMany / an executed transaction
                let (a, input) = precompile_input(rng);
                match rng.below(5) {
                    0 | 1 => ("eth_call".into(), json!([{"to": pc_addr(a), "data": hist::hx(&input)}]), "precompile-direct"),
                    2 => {
                        let (ov, id) = crafted_btc_overrides(rng);
                        let data = if rng.chance(1, 2) { pre::get_tx_details(&id) } else { pre::get_last_sat_location(&id, rng.below(4), *rng.pick(&[0u64, 1, u64::MAX])) };
                        let to = if data[..4] == pre::get_tx_details(&id)[..4] { pre::PC_TXDETAILS } else { pre::PC_LASTSAT };
                        // the per-call list of current transaction ids may be shorter or longer than the list of calls
                        let mut ov = ov;
                        let ncalls = rng.range(1, 3) as usize;
                        let nids = rng.below(5) as usize;
                        ov["opReturnTxIds"] = Value::Array((0..nids).map(|i| json!(crate::hist::bh(0x1d00 + i as u64))).collect());
                        let mut calls = vec![json!({"to": pc_addr(to), "data": hist::hx(&data)})];
                        while calls.len() < ncalls {
                            calls.push(if rng.chance(1, 2) { json!({"to": pc_addr(pre::PC_TXID), "data": "0x"}) } else { json!({"to": fz.st.tool, "data": hist::hx(&asm::tool_call(asm::OP_INC, &[asm::word_u64(1)], &[]))}) });
                        }
                        let m = if rng.chance(2, 3) { "eth_callMany" } else { "eth_estimateGasMany" };
                        (m.into(), json!([calls, Value::Null, ov]), if nids < ncalls { "precompile-overrides-fewer-ids" } else { "precompile-overrides" })
                    }
                    3 => ("eth_call".into(), json!([{"to": fz.st.tool, "data": hist::hx(&asm::tool_call(if rng.chance(1, 2) { asm::OP_CALL } else { asm::OP_STATIC }, &[asm::word_u64(a)], &input))}]), "precompile-via-contract"),
                    _ => {
                        let (ts, h, idx) = fz.open_block.clone().unwrap_or((50 + fz.st.n, fz.st.fresh_hash.clone(), 0));
                        ("brc20_call".into(), json!({"from_pkscript": PK, "contract_address": pc_addr(a), "data": hist::hx(&input), "timestamp": ts, "hash": h, "tx_idx": idx, "inscription_id": format!("c09-pc-{}", fz.st.n), "inscription_byte_len": 100_000, "op_return_tx_id": hist::ZERO_HASH}), "precompile-executed")
                    }
                }
            }
            2 => {
                // programs: random / mutated bytecode as init code or call data, gas from 0 up
                let mut code = if rng.chance(1, 2) { asm::tool_init() } else { rng.bytes_upto(200) };
                for _ in 0..rng.below(6) {
                    if !code.is_empty() {
                        let i = rng.below(code.len() as u64) as usize;
                        code[i] = (rng.next() & 0xff) as u8;
                    }
                }
                // the allowance bounds the running time of looping code: keep it at <= 1.2e9 gas here
                // (a saturated allowance with a looping program runs for minutes by design)
                let len = *rng.pick(&[0u64, 1, 2, 10, 1000, 100_000]);
                let (ts, h, idx) = fz.open_block.clone().unwrap_or((50 + fz.st.n, fz.st.fresh_hash.clone(), 0));
                match rng.below(3) {
                    0 => ("brc20_deploy".into(), json!({"from_pkscript": PK, "data": hist::hx(&code), "timestamp": ts, "hash": h, "tx_idx": idx, "inscription_id": format!("c09-prog-{}", fz.st.n), "inscription_byte_len": len, "op_return_tx_id": hist::ZERO_HASH}), "program-deploy"),
                    1 => ("eth_call".into(), json!([{"data": hist::hx(&code)}]), "program-simulated-create"),
                    _ => ("brc20_call".into(), json!({"from_pkscript": PK, "contract_address": fz.st.tool, "data": hist::hx(&code), "timestamp": ts, "hash": h, "tx_idx": idx, "inscription_id": format!("c09-prog-{}", fz.st.n), "inscription_byte_len": len, "op_return_tx_id": hist::ZERO_HASH}), "program-calldata"),
                }
            }
            4 if fz.state != "empty" => {
                // a well-formed signed transaction ahead of its account nonce (it waits), and next time
                // a different or identical one for the same nonce (replacement / re-inscription)
                let s = Signer::new(53);
                let cur = hist::account_nonce(&mut fz.inst, &s.addr);
                let (nonce, class) = match fz.waiting.take() {
                    Some(n) if n > cur => (n, "waiting-nonce-replaced"),
                    _ => {
                        let n = cur + rng.range(1, 4);
                        fz.waiting = Some(n);
                        (n, "waiting-nonce-parked")
                    }
                };
                let payload = if class == "waiting-nonce-replaced" && rng.chance(1, 3) { 1 } else { fz.st.n };
                let raw = s.sign(Some(rpc::chain_id_for("regtest")), nonce, Some(hist::parse_addr(&fz.st.tool)), &asm::tool_call(asm::OP_INC, &[asm::word_u64(1 + payload % 7)], &[]));
                let (ts, h, idx) = fz.open_block.clone().unwrap_or((50 + fz.st.n, fz.st.fresh_hash.clone(), 0));
                ("brc20_transact".into(), json!({"raw_tx_data": format!("0x{}", raw), "timestamp": ts, "hash": h, "tx_idx": idx, "inscription_id": format!("c09-w-{}", fz.st.n), "inscription_byte_len": 100000, "op_return_tx_id": hist::ZERO_HASH}), class)
            }
            3 => {
                // mine with small counts incl. zero (logical hang witness below)
                ("brc20_mine".into(), json!({"block_count": *rng.pick(&[0u64, 0, 1, 2, 3, 17]), "timestamp": boundary_int(rng)}), "mine-small")
            }
            _ => {
                let m = rng.pick(names).clone();
                let base = template(&m, &fz.st).unwrap_or(json!([]));
                let (p, mc) = match rng.below(9) {
                    8 => {
                        // well-formed request whose identifier-like text fields are long mixed-width strings
                        let mut b = base.clone();
                        if let Some(o) = b.as_object_mut() {
                            for k in ["inscription_id", "ticker"] {
                                if o.contains_key(k) && rng.chance(2, 3) {
                                    let pre = if rng.chance(1, 2) { "a".repeat(rng.range(200, 320) as usize) } else { String::new() };
                                    let n = rng.range(8, 900) as usize;
                                    o.insert(k.to_string(), json!(format!("{}{}", pre, mixed_width_string(rng, n))));
                                }
                            }
                        }
                        (b, "long-mixed-width-identifiers")
                    }
                    0 => (base.clone(), "well-formed"),
                    1 => (to_positional(&m, &base).unwrap_or(base.clone()), "positional"),
                    2 => (json!(null), "null-params"),
                    3 => {
                        let once = mutate_value(rng, &base, 0);
                        (mutate_value(rng, &once, 0), "double-mutation")
                    }
                    _ => (mutate_value(rng, &base, 0), "mutated"),
                };
                // brc20_mine is only asked for small counts (see assumptions)
                if m == "brc20_mine" {
                    (m, json!({"block_count": *rng.pick(&[0u64, 1, 2]), "timestamp": boundary_int(rng)}), "mine-small")
                } else {
                    (m, p, mc)
                }
            }
        };
        // executing reads stall 5 s by design while a block is open: finish the block first (mostly)
        let executing_read = matches!(method.as_str(), "eth_call" | "eth_callMany" | "eth_estimateGas" | "eth_estimateGasMany" | "brc20_balance");
        if executing_read && fz.open_block.is_some() && !rng.chance(1, 60) {
            let (ts, h, cnt) = fz.open_block.clone().unwrap();
            let f = fz.inst.call("brc20_finaliseBlock", json!({"timestamp": ts, "hash": h, "block_tx_count": cnt}));
            if !f.is_ok() {
                fz.inst.call("brc20_clearCaches", json!([]));
            }
            fz.open_block = None;
        }
        let start_height = hexq(&fz.inst.call("eth_blockNumber", json!([]))).map(|h| h as i64).unwrap_or(fz.height);
        let genesis_exists = method != "brc20_mine" || fz.inst.call("eth_getBlockByNumber", json!(["0x0", false])).is_ok();
        let r = fz.inst.call(&method, params.clone());
        rep.evaluations += 1;
        let class = match &r {
            Resp::Ok(_) => "ok",
            Resp::Err { code, .. } if *code == -32602 || *code == -32600 || *code == -32700 => "rejected-by-framing",
            Resp::Err { .. } => "error",
            Resp::Panic(_) => "panic",
            Resp::Timeout => "timeout",
        };
        if class != "rejected-by-framing" {
            rep.nontrivial(format!("{}:{}:{}", method, class, mclass));
        }
        rep.count(&format!("outcome:{}", class), 1);
        rep.set_add("states", state);
        match &r {
            Resp::Panic(msg) => {
                if msg.contains("Bitcoin RPC unreachable") {
                    rep.inconclusive("environment: Bitcoin RPC unreachable panic");
                    rpc::remove_dir(&fz.inst.dir.clone());
                    return Some(true);
                }
                violation(rep, "C09", ctx.seed, &panic_sig(msg), format!("{} made the handler panic (the shipped binary aborts): {}", method, msg), json!({"engine_state": state, "method": method, "params": params, "request_no": k}));
                // is the engine wedged now?
                let alive = fz.inst.call("eth_blockNumber", json!([]));
                if !alive.is_ok() {
                    violation(rep, "C09", ctx.seed, &format!("wedged-after-{}", panic_sig(msg)), format!("after that panic every later request fails: {}", alive.short()), json!({"engine_state": state, "method": method, "params": params}));
                }
                rpc::remove_dir(&fz.inst.dir.clone());
                return Some(false);
            }
            Resp::Timeout => {
                // logical witness for mine: the height ran past the requested count
                let h = hexq(&fz.inst.call("eth_blockNumber", json!([]))).map(|x| x as i64);
                if method == "brc20_mine" {
                    let want = params["block_count"].as_u64().unwrap_or(0) as i64;
                    if let Some(h) = h {
                        if h > start_height.max(0) + want + 1 {
                            violation(rep, "C09", ctx.seed, "mine-overrun", format!("brc20_mine(block_count={}) did not return and the height ran from {} to {} and keeps growing", want, start_height, h), json!({"engine_state": state, "params": params}));
                            return None;
                        }
                    }
                }
                // logical witness for a wedged server: the cheapest database read does not return either,
                // while a request that needs no database (eth_chainId) is answered at once - the machine
                // is not starved, the database lock is held for good
                if h.is_none() {
                    let cfg_only = fz.inst.call("eth_chainId", json!([]));
                    let again = fz.inst.call("eth_blockNumber", json!([]));
                    if cfg_only.is_ok() && matches!(again, Resp::Timeout) {
                        violation(rep, "C09", ctx.seed, &format!("wedged-after-hang:{}:{}", method, mclass), format!("{} never returned, and afterwards eth_blockNumber does not return either (twice, {} s each) while eth_chainId is answered at once: the server is wedged", method, fz.inst.timeout.as_secs()),
                            json!({"engine_state": state, "method": method, "params": params, "class": mclass}));
                        return None;
                    }
                }
                rep.inconclusive(format!("{} did not return within the watchdog (state {}, params {})", method, state, params.to_string().chars().take(200).collect::<String>()));
                return None;
            }
            _ => {}
        }
        // keep the shadow of the open block / height in sync (only to form the next requests)
        if r.is_ok() {
            match method.as_str() {
                "brc20_deploy" | "brc20_call" | "brc20_deposit" | "brc20_withdraw" => {
                    let (ts, h) = (params["timestamp"].as_u64().unwrap_or(0), params["hash"].as_str().unwrap_or("").to_string());
                    let idx = params["tx_idx"].as_u64().unwrap_or(0);
                    fz.open_block = Some((ts, h, idx + 1));
                }
                "brc20_transact" => {
                    let n = hist::receipts_in(&r).len() as u64;
                    if n > 0 {
                        let (ts, h) = (params["timestamp"].as_u64().unwrap_or(0), params["hash"].as_str().unwrap_or("").to_string());
                        let idx = params["tx_idx"].as_u64().unwrap_or(0);
                        fz.open_block = Some((ts, h, idx + n));
                    }
                }
                "brc20_finaliseBlock" | "brc20_clearCaches" | "brc20_initialise" => fz.open_block = None,
                _ => {}
            }
        }
        if let Some(h) = hexq(&fz.inst.call("eth_blockNumber", json!([]))) {
            fz.height = h as i64;
            fz.st.next_height = h + 1;
        }
        if method == "brc20_mine" && r.is_ok() {
            let want = params["block_count"].as_u64().unwrap_or(0) as i64;
            // on a database without a genesis block the first mined block is block 0
            let expect = if !genesis_exists { (want - 1).max(0) } else { start_height + want };
            if fz.height != expect {
                violation(rep, "C09", ctx.seed, "mine-count", format!("brc20_mine(block_count={}) moved the height from {} to {}", want, start_height, fz.height), json!({"engine_state": state}));
                rpc::remove_dir(&fz.inst.dir.clone());
                return Some(false);
            }
        }
        // liveness probe
        if k % probe_every == 0 {
            let a = fz.inst.call("eth_blockNumber", json!([]));
            let b = fz.inst.call("eth_getBlockByNumber", json!(["latest", true]));
            let mut alive = a.is_ok() && !matches!(b, Resp::Panic(_) | Resp::Timeout);
            let mut detail = json!({"eth_blockNumber": a.short(), "eth_getBlockByNumber": b.short()});
            if alive {
                // write round: finish the open block (if any) and mine one
                if let Some((ts, h, cnt)) = fz.open_block.clone() {
                    let f = fz.inst.call("brc20_finaliseBlock", json!({"timestamp": ts, "hash": h, "block_tx_count": cnt}));
                    if !f.is_ok() {
                        // our shadow may be off after fuzzed calls: resynchronise through clearCaches
                        fz.inst.call("brc20_clearCaches", json!([]));
                    }
                    fz.open_block = None;
                }
                let before = hexq(&fz.inst.call("eth_blockNumber", json!([])));
                let exists0 = fz.inst.call("eth_getBlockByNumber", json!(["0x0", false])).is_ok();
                let m = fz.inst.call("brc20_mine", json!({"block_count": 1, "timestamp": 7}));
                let after = hexq(&fz.inst.call("eth_blockNumber", json!([])));
                let grew = match (before, after) {
                    (Some(x), Some(y)) => y == x + 1 || (!exists0 && y == x),
                    _ => false,
                };
                if !m.is_ok() || !grew {
                    alive = false;
                    detail = json!({"write_round": m.short(), "height_before": before, "height_after": after});
                }
                if let Some(y) = after {
                    fz.height = y as i64;
                    fz.st.next_height = y + 1;
                }
            }
            rep.count("liveness_probes", 1);
            if !alive {
                violation(rep, "C09", ctx.seed, &format!("liveness-lost-after:{}", method), format!("after {} the server no longer serves correctly", method), json!({"engine_state": state, "method": method, "params": params, "probe": detail}));
                rpc::remove_dir(&fz.inst.dir.clone());
                return Some(false);
            }
        }
    }
    let dir = fz.inst.dir.clone();
    drop(fz);
    rpc::remove_dir(&dir);
    Some(true)
}

/// A sample of hostile requests through the real HTTP server (framing layer): the server must keep
/// answering a plain request afterwards.
fn http_sample(ctx: &WorkerCtx, rep: &mut WorkerReport, rng: &mut Rng, btc: &str) {
    use crate::http;
    let dir = rpc::fresh_dir("C09");
    let port = http::free_port();
    let mut c = rpc::make_config("regtest", true, btc, dir.to_str().unwrap());
    c.brc20_prog_rpc_server_url = format!("127.0.0.1:{}", port);
    c.max_request_size = 256 * 1024;
    c.batch_request_limit = 10;
    let handle = match rpc::rt().block_on(async { brc20_prog::start(c).await.map_err(|e| e.to_string()) }) {
        Ok(h) => h,
        Err(e) => {
            rep.inconclusive(format!("http sample: server did not start: {}", e));
            return;
        }
    };
    let addr = format!("127.0.0.1:{}", port);
    let t = Duration::from_secs(20);
    let alive = |rep: &mut WorkerReport, after: &str| -> bool {
        match http::post(&addr, &[], r#"{"jsonrpc":"2.0","id":1,"method":"eth_chainId","params":[]}"#, t) {
            Ok(r) if r.body.contains("\"result\"") => true,
            other => {
                violation(rep, "C09", ctx.seed, "http-liveness-lost", format!("after {} the HTTP server no longer answers eth_chainId: {:?}", after, other.map(|r| r.body).unwrap_or_else(|e| e)), json!({"after": after}));
                false
            }
        }
    };
    let deep = format!("{}1{}", "[".repeat(5000), "]".repeat(5000));
    let big = format!(r#"{{"jsonrpc":"2.0","id":1,"method":"web3_sha3","params":["0x{}"]}}"#, "ab".repeat(200_000));
    let batch_over: String = format!("[{}]", (0..40).map(|i| format!(r#"{{"jsonrpc":"2.0","id":{},"method":"eth_blockNumber","params":[]}}"#, i)).collect::<Vec<_>>().join(","));
    let mut bodies: Vec<(String, String)> = vec![
        ("empty body".into(), "".into()),
        ("not json".into(), "hello".into()),
        ("truncated json".into(), r#"{"jsonrpc":"2.0","id":1,"method":"eth_blockNum"#.into()),
        ("deeply nested json".into(), deep.clone()),
        ("nested params".into(), format!(r#"{{"jsonrpc":"2.0","id":1,"method":"eth_call","params":{}}}"#, deep)),
        ("body over the size limit".into(), big),
        ("batch over the limit".into(), batch_over),
        ("empty batch".into(), "[]".into()),
        ("batch of garbage".into(), "[1,null,\"x\",{}]".into()),
        ("id as object".into(), r#"{"jsonrpc":"2.0","id":{"a":1},"method":"eth_blockNumber","params":[]}"#.into()),
        ("method as number".into(), r#"{"jsonrpc":"2.0","id":1,"method":5,"params":[]}"#.into()),
        ("unknown method".into(), r#"{"jsonrpc":"2.0","id":1,"method":"eth_nope","params":[]}"#.into()),
        ("huge id".into(), r#"{"jsonrpc":"2.0","id":123456789012345678901234567890,"method":"eth_blockNumber","params":[]}"#.into()),
        ("nul bytes".into(), r#"{"jsonrpc":"2.0","id":1,"method":"eth_blockNumber\u0000","params":[]}"#.into()),
    ];
    let names = ["eth_call", "eth_getLogs", "brc20_deploy", "brc20_transact", "eth_getStorageAt", "eth_callMany", "brc20_mine", "web3_sha3"];
    for i in 0..40u64 {
        let m = rng.pick(&names).to_string();
        let st = Tmpl { tool: "0x00000000000000000000000000000000000000aa".into(), tx_hash: hist::ZERO_HASH.into(), block_hash: hist::ZERO_HASH.into(), fresh_hash: crate::hist::bh((0x477_0000u64 + i) as u64), raw_tx: "0x".into(), next_height: 0, n: i };
        let base = template(&m, &st).unwrap_or(json!([]));
        let p = mutate_value(rng, &base, 0);
        let p = if m == "brc20_mine" { json!({"block_count": rng.below(3), "timestamp": 1}) } else { p };
        bodies.push((format!("mutated {}", m), json!({"jsonrpc": "2.0", "id": i, "method": m, "params": p}).to_string()));
    }
    for (what, body) in bodies {
        let r = http::post(&addr, &[], &body, t);
        rep.evaluations += 1;
        rep.nontrivial(format!("http:{}:{}", what.split(' ').next().unwrap_or(""), match &r { Ok(x) => x.status.to_string(), Err(_) => "io-error".into() }));
        if !alive(rep, &what) {
            break;
        }
    }
    rep.count("http_requests", 1);
    let _ = handle.stop();
    rpc::rt().block_on(async { handle.stopped().await });
    rpc::remove_dir(&dir);
}

/// Sanitizer pass: one small worker of this very check re-executed under valgrind memcheck, so that
/// the hostile requests run through the whole engine (RocksDB, zstd, secp256k1, revm precompiles)
/// with every native library instrumented. The engine asks for RLIMIT_NOFILE (4096, 8192) when it
/// opens a database, which valgrind only grants when its own descriptor ceiling is exactly 8192:
/// the child's soft limit is set accordingly before exec.
fn memcheck_pass(ctx: &WorkerCtx, rep: &mut WorkerReport) {
    use std::os::unix::process::CommandExt;
    if std::process::Command::new("valgrind").arg("--version").output().is_err() {
        rep.notes.push("valgrind not available: whole-engine memcheck pass skipped".into());
        return;
    }
    let exe = std::env::current_exe().unwrap();
    let dir = rpc::fresh_dir("C09");
    let log = dir.join("memcheck.log");
    let out = dir.join("memcheck-report.json");
    let mut cmd = std::process::Command::new("valgrind");
    cmd.args(["--error-exitcode=99", "--leak-check=no", "--quiet", &format!("--log-file={}", log.display())])
        .arg(exe)
        .args(["worker", "C09", &ctx.tier, &ctx.seed.to_string(), &ctx.shard.to_string(), &ctx.nshards.to_string(), out.to_str().unwrap(), "memcheck"])
        .stdout(std::process::Stdio::null())
        .stderr(std::process::Stdio::null());
    unsafe {
        cmd.pre_exec(|| {
            let mut rl = libc::rlimit { rlim_cur: 0, rlim_max: 0 };
            if libc::getrlimit(libc::RLIMIT_NOFILE, &mut rl) == 0 && rl.rlim_max >= 8192 + 12 {
                rl.rlim_cur = 8192;
                libc::setrlimit(libc::RLIMIT_NOFILE, &rl);
            }
            Ok(())
        });
    }
    let started = std::time::Instant::now();
    let mut child = match cmd.spawn() {
        Ok(c) => c,
        Err(e) => {
            rep.notes.push(format!("valgrind could not be run: {}", e));
            return;
        }
    };
    // generous wall-clock watchdog: its firing is inconclusive
    let status = loop {
        match child.try_wait() {
            Ok(Some(st)) => break Some(st),
            Ok(None) => {
                if started.elapsed() > Duration::from_secs(900) {
                    let _ = child.kill();
                    let _ = child.wait();
                    break None;
                }
                std::thread::sleep(Duration::from_millis(200));
            }
            Err(_) => break None,
        }
    };
    let text = std::fs::read_to_string(&log).unwrap_or_default();
    let child_rep = crate::report::read_report(&out);
    match status.and_then(|s| s.code()) {
        Some(99) => {
            let first = text.lines().find(|l| l.contains("Invalid") || l.contains("uninitialised") || l.contains("Mismatched") || l.contains("overlap")).unwrap_or("").to_string();
            let frames: Vec<&str> = text.lines().filter(|l| l.contains(" at 0x") || l.contains(" by 0x")).take(8).collect();
            violation(rep, "C09", ctx.seed, &format!("memcheck:{}", first.split("==").last().unwrap_or("").trim().chars().take(40).collect::<String>()),
                format!("valgrind memcheck reported a memory error while the engine served hostile requests: {}", first), json!({"frames": frames, "log": text.chars().take(6000).collect::<String>()}));
        }
        Some(0) => {
            if let Some(cr) = child_rep {
                rep.evaluations += cr.evaluations;
                rep.count("requests_under_memcheck", cr.evaluations);
                rep.nontrivial("memcheck-clean-whole-engine".to_string());
                rep.notes.push(format!("valgrind memcheck: {} hostile requests through the whole engine, no report ({:.0} s)", cr.evaluations, started.elapsed().as_secs_f64()));
                // what the instrumented worker itself found (panics, lost liveness) counts; its timeouts do not
                rep.violations.extend(cr.violations);
                if cr.inconclusive > 0 {
                    rep.notes.push(format!("memcheck worker: {} slow requests under instrumentation ignored", cr.inconclusive));
                }
            } else {
                rep.inconclusive("memcheck worker ended without a report");
            }
        }
        other => {
            rep.inconclusive(format!("valgrind run ended with {:?} after {:.0} s: {}", other, started.elapsed().as_secs_f64(), text.chars().take(300).collect::<String>()));
        }
    }
    rpc::remove_dir(&dir);
}

pub fn worker(ctx: &WorkerCtx) -> WorkerReport {
    let btc = crate::setup_env("regtest", true);
    let mut rep = WorkerReport::default();
    let mut rng = ctx.rng();
    let under_memcheck = ctx.extra.iter().any(|x| x == "memcheck");
    if !under_memcheck && ctx.shard % 8 == 1 {
        memcheck_pass(ctx, &mut rep);
    }
    if !under_memcheck && ctx.shard % 8 == 0 {
        http_sample(ctx, &mut rep, &mut rng, &btc);
        // start() replaced the process configuration: restore the harness one
        rpc::set_global_config("regtest", true, &btc);
    }
    let names: Vec<String> = {
        let d = rpc::fresh_dir("C09");
        let i = Inst::open(&d).expect("open");
        let n = i.method_names();
        drop(i);
        rpc::remove_dir(&d);
        n
    };
    rep.count("registered_methods", if ctx.shard == 0 { names.len() as u64 } else { 0 });
    let states: [&'static str; 5] = ["empty", "initialised", "mid-block", "after-reorg", "after-clear"];
    let rounds = if under_memcheck { if ctx.thorough() { 5 } else { 2 } } else if ctx.thorough() { 40 } else { 5 };
    let per = if under_memcheck { 40 } else if ctx.thorough() { 500 } else { 100 };
    let mut failures = 0;
    for r in 0..rounds {
        let state = states[((ctx.shard + r) % 5) as usize];
        match fuzz(ctx, &mut rep, &mut rng, state, &names, per) {
            Some(true) => {}
            Some(false) => {
                failures += 1;
                if failures >= 6 {
                    break;
                }
            }
            None => break,
        }
    }
    rep.sample(json!({"states": states, "requests_per_round": per, "rounds": rounds, "methods": names.len()}));
    rep
}
