//! Deterministic PRNG (splitmix64 seeding + xoshiro256**), so every run replays from VERIF_SEED.

#[derive(Clone, Debug)]
pub struct Rng {
    s: [u64; 4],
}

fn splitmix(x: &mut u64) -> u64 {
    *x = x.wrapping_add(0x9E3779B97F4A7C15);
    let mut z = *x;
    z = (z ^ (z >> 30)).wrapping_mul(0xBF58476D1CE4E5B9);
    z = (z ^ (z >> 27)).wrapping_mul(0x94D049BB133111EB);
    z ^ (z >> 31)
}

impl Rng {
    pub fn new(seed: u64) -> Self {
        let mut x = seed;
        let s = [
            splitmix(&mut x),
            splitmix(&mut x),
            splitmix(&mut x),
            splitmix(&mut x),
        ];
        Rng { s }
    }

    /// Derive an independent stream (e.g. per shard / per case).
    pub fn fork(&mut self, tag: u64) -> Rng {
        let a = self.next();
        Rng::new(a ^ tag.wrapping_mul(0xD6E8FEB86659FD93))
    }

    pub fn next(&mut self) -> u64 {
        let result = self.s[1].wrapping_mul(5).rotate_left(7).wrapping_mul(9);
        let t = self.s[1] << 17;
        self.s[2] ^= self.s[0];
        self.s[3] ^= self.s[1];
        self.s[1] ^= self.s[2];
        self.s[0] ^= self.s[3];
        self.s[2] ^= t;
        self.s[3] = self.s[3].rotate_left(45);
        result
    }

    /// Uniform in [0, n). n must be > 0.
    pub fn below(&mut self, n: u64) -> u64 {
        if n <= 1 {
            return 0;
        }
        self.next() % n
    }

    pub fn range(&mut self, lo: u64, hi_incl: u64) -> u64 {
        lo + self.below(hi_incl - lo + 1)
    }

    pub fn chance(&mut self, num: u64, den: u64) -> bool {
        self.below(den) < num
    }

    pub fn pick<'a, T>(&mut self, xs: &'a [T]) -> &'a T {
        &xs[self.below(xs.len() as u64) as usize]
    }

    pub fn bytes(&mut self, n: usize) -> Vec<u8> {
        let mut v = Vec::with_capacity(n);
        while v.len() < n {
            let x = self.next().to_le_bytes();
            let take = (n - v.len()).min(8);
            v.extend_from_slice(&x[..take]);
        }
        v
    }

    /// Random bytes of a random length in [0, max).
    pub fn bytes_upto(&mut self, max: u64) -> Vec<u8> {
        let n = self.below(max) as usize;
        self.bytes(n)
    }

    pub fn b32(&mut self) -> [u8; 32] {
        let mut out = [0u8; 32];
        out.copy_from_slice(&self.bytes(32));
        out
    }

    pub fn shuffle<T>(&mut self, xs: &mut [T]) {
        for i in (1..xs.len()).rev() {
            let j = self.below(i as u64 + 1) as usize;
            xs.swap(i, j);
        }
    }

    /// Weighted choice: returns index.
    pub fn weighted(&mut self, weights: &[u64]) -> usize {
        let total: u64 = weights.iter().sum();
        let mut x = self.below(total.max(1));
        for (i, w) in weights.iter().enumerate() {
            if x < *w {
                return i;
            }
            x -= *w;
        }
        weights.len() - 1
    }
}
