//! Histories: explicit indexer calls (replayable on any instance), the driver that executes them
//! while keeping a light protocol shadow (only to *form* well-formed calls), and the generator.

use std::collections::BTreeSet;

use alloy::consensus::transaction::RlpEcdsaEncodableTx;
use alloy::consensus::{SignableTransaction, TxLegacy};
use alloy::primitives::{keccak256, Address, Bytes, TxKind, U256};
use alloy_signer::SignerSync;
use alloy_signer_local::PrivateKeySigner;
use serde::{Deserialize, Serialize};
use serde_json::{json, Value};

use crate::asm;
use crate::rng::Rng;
use crate::rpc::{Inst, Resp};

pub const ZERO_HASH: &str = "0x0000000000000000000000000000000000000000000000000000000000000000";

#[derive(Clone, Copy, Debug, Serialize, Deserialize, PartialEq, Eq)]
pub enum Enc {
    Hex,
    B64,
}

#[derive(Clone, Debug, Serialize, Deserialize, PartialEq)]
pub struct Ctx {
    pub ts: u64,
    pub hash: String,
    pub idx: u64,
}

#[derive(Clone, Debug, Serialize, Deserialize, PartialEq)]
pub enum Target {
    Addr(String),
    Iid(String),
    Neither,
}

#[derive(Clone, Debug, Serialize, Deserialize, PartialEq)]
pub enum Op {
    Init { hash: String, ts: u64, height: u64 },
    Mine { n: u64, ts: u64 },
    Deploy { pk: String, data: String, enc: Enc, ctx: Ctx, iid: String, len: u64, txid: String },
    Call { pk: String, target: Target, data: Option<String>, enc: Enc, ctx: Ctx, iid: String, len: u64, txid: String },
    Transact { raw: String, enc: Enc, ctx: Ctx, iid: String, len: u64, txid: String },
    Deposit { pk: String, ticker: String, amount: String, ctx: Ctx, iid: String },
    Withdraw { pk: String, ticker: String, amount: String, ctx: Ctx, iid: String },
    Finalise { ts: u64, hash: String, count: u64 },
    Commit,
    Clear,
    Reorg { n: u64 },
    Reopen,
    Raw { method: String, params: Value },
}

pub fn b64_of_hex(h: &str) -> String {
    let bytes = hex::decode(h.trim_start_matches("0x")).unwrap_or_default();
    brc20_prog::types::Base64Bytes::from_bytes(Bytes::from(bytes)).map(|b| b.to_string()).unwrap_or_default()
}

fn data_fields(o: &mut serde_json::Map<String, Value>, hexkey: &str, b64key: &str, data: &str, enc: Enc) {
    match enc {
        Enc::Hex => {
            o.insert(hexkey.to_string(), json!(data));
        }
        Enc::B64 => {
            o.insert(b64key.to_string(), json!(b64_of_hex(data)));
        }
    }
}

impl Op {
    pub fn kind(&self) -> &'static str {
        match self {
            Op::Init { .. } => "initialise",
            Op::Mine { .. } => "mine",
            Op::Deploy { .. } => "deploy",
            Op::Call { .. } => "call",
            Op::Transact { .. } => "transact",
            Op::Deposit { .. } => "deposit",
            Op::Withdraw { .. } => "withdraw",
            Op::Finalise { .. } => "finalise",
            Op::Commit => "commit",
            Op::Clear => "clear",
            Op::Reorg { .. } => "reorg",
            Op::Reopen => "reopen",
            Op::Raw { .. } => "raw",
        }
    }

    pub fn is_tx(&self) -> bool {
        matches!(self, Op::Deploy { .. } | Op::Call { .. } | Op::Transact { .. } | Op::Deposit { .. } | Op::Withdraw { .. })
    }

    pub fn ctx(&self) -> Option<&Ctx> {
        match self {
            Op::Deploy { ctx, .. } | Op::Call { ctx, .. } | Op::Transact { ctx, .. } | Op::Deposit { ctx, .. } | Op::Withdraw { ctx, .. } => Some(ctx),
            _ => None,
        }
    }

    pub fn ctx_mut(&mut self) -> Option<&mut Ctx> {
        match self {
            Op::Deploy { ctx, .. } | Op::Call { ctx, .. } | Op::Transact { ctx, .. } | Op::Deposit { ctx, .. } | Op::Withdraw { ctx, .. } => Some(ctx),
            _ => None,
        }
    }

    /// JSON-RPC method and named parameters, as the bundled client sends them.
    pub fn request(&self) -> Option<(String, Value)> {
        Some(match self {
            Op::Init { hash, ts, height } => (
                "brc20_initialise".into(),
                json!({"genesis_hash": hash, "genesis_timestamp": ts, "genesis_height": height}),
            ),
            Op::Mine { n, ts } => ("brc20_mine".into(), json!({"block_count": n, "timestamp": ts})),
            Op::Deploy { pk, data, enc, ctx, iid, len, txid } => {
                let mut o = serde_json::Map::new();
                o.insert("from_pkscript".into(), json!(pk));
                data_fields(&mut o, "data", "base64_data", data, *enc);
                o.insert("timestamp".into(), json!(ctx.ts));
                o.insert("hash".into(), json!(ctx.hash));
                o.insert("tx_idx".into(), json!(ctx.idx));
                o.insert("inscription_id".into(), json!(iid));
                o.insert("inscription_byte_len".into(), json!(len));
                o.insert("op_return_tx_id".into(), json!(txid));
                ("brc20_deploy".into(), Value::Object(o))
            }
            Op::Call { pk, target, data, enc, ctx, iid, len, txid } => {
                let mut o = serde_json::Map::new();
                o.insert("from_pkscript".into(), json!(pk));
                match target {
                    Target::Addr(a) => {
                        o.insert("contract_address".into(), json!(a));
                    }
                    Target::Iid(i) => {
                        o.insert("contract_inscription_id".into(), json!(i));
                    }
                    Target::Neither => {}
                }
                if let Some(d) = data {
                    data_fields(&mut o, "data", "base64_data", d, *enc);
                }
                o.insert("timestamp".into(), json!(ctx.ts));
                o.insert("hash".into(), json!(ctx.hash));
                o.insert("tx_idx".into(), json!(ctx.idx));
                o.insert("inscription_id".into(), json!(iid));
                o.insert("inscription_byte_len".into(), json!(len));
                o.insert("op_return_tx_id".into(), json!(txid));
                ("brc20_call".into(), Value::Object(o))
            }
            Op::Transact { raw, enc, ctx, iid, len, txid } => {
                let mut o = serde_json::Map::new();
                data_fields(&mut o, "raw_tx_data", "base64_raw_tx_data", raw, *enc);
                o.insert("timestamp".into(), json!(ctx.ts));
                o.insert("hash".into(), json!(ctx.hash));
                o.insert("tx_idx".into(), json!(ctx.idx));
                o.insert("inscription_id".into(), json!(iid));
                o.insert("inscription_byte_len".into(), json!(len));
                o.insert("op_return_tx_id".into(), json!(txid));
                ("brc20_transact".into(), Value::Object(o))
            }
            Op::Deposit { pk, ticker, amount, ctx, iid } => (
                "brc20_deposit".into(),
                json!({"to_pkscript": pk, "ticker": ticker, "amount": amount, "timestamp": ctx.ts,
                       "hash": ctx.hash, "tx_idx": ctx.idx, "inscription_id": iid}),
            ),
            Op::Withdraw { pk, ticker, amount, ctx, iid } => (
                "brc20_withdraw".into(),
                json!({"from_pkscript": pk, "ticker": ticker, "amount": amount, "timestamp": ctx.ts,
                       "hash": ctx.hash, "tx_idx": ctx.idx, "inscription_id": iid}),
            ),
            Op::Finalise { ts, hash, count } => (
                "brc20_finaliseBlock".into(),
                json!({"timestamp": ts, "hash": hash, "block_tx_count": count}),
            ),
            Op::Commit => ("brc20_commitToDatabase".into(), json!([])),
            Op::Clear => ("brc20_clearCaches".into(), json!([])),
            Op::Reorg { n } => ("brc20_reorg".into(), json!({"latest_valid_block_number": n})),
            Op::Reopen => return None,
            Op::Raw { method, params } => (method.clone(), params.clone()),
        })
    }
}

pub fn apply(inst: &mut Inst, op: &Op) -> Resp {
    match op.request() {
        Some((m, p)) => inst.call(&m, p),
        None => match inst.reopen() {
            Ok(()) => Resp::Ok(Value::Null),
            Err(e) => Resp::Err { code: -1, message: format!("reopen failed: {}", e), data: Value::Null },
        },
    }
}

pub fn receipts_in(resp: &Resp) -> Vec<Value> {
    match resp.ok() {
        Some(Value::Array(a)) => a.clone(),
        Some(v @ Value::Object(_)) => vec![v.clone()],
        _ => vec![],
    }
}

// ---------------------------------------------------------------------------------------------
// Signers and addresses
// ---------------------------------------------------------------------------------------------

pub fn pk_address(pk_hex: &str) -> [u8; 20] {
    let bytes = hex::decode(pk_hex).unwrap_or_default();
    let h = keccak256(bytes);
    let mut a = [0u8; 20];
    a.copy_from_slice(&h[12..32]);
    a
}

pub fn addr_hex(a: &[u8; 20]) -> String {
    format!("0x{}", hex::encode(a))
}

pub fn parse_addr(s: &str) -> [u8; 20] {
    let mut a = [0u8; 20];
    if let Ok(b) = hex::decode(s.trim_start_matches("0x")) {
        if b.len() == 20 {
            a.copy_from_slice(&b);
        }
    }
    a
}

#[derive(Clone)]
pub struct Signer {
    pub key: PrivateKeySigner,
    pub addr: [u8; 20],
}

impl Signer {
    pub fn new(tag: u8) -> Signer {
        let mut k = [0u8; 32];
        k[31] = tag.max(1);
        k[0] = 0x42;
        let key = PrivateKeySigner::from_slice(&k).expect("valid key");
        let addr = key.address().0 .0;
        Signer { key, addr }
    }

    /// A signer whose key is derived from a 64-bit seed (for workloads with hundreds of senders).
    pub fn new_seeded(seed: u64) -> Signer {
        let mut k = [0u8; 32];
        k[0] = 0x43;
        k[8..16].copy_from_slice(&seed.to_be_bytes());
        k[31] = 1;
        let key = PrivateKeySigner::from_slice(&k).expect("valid key");
        let addr = key.address().0 .0;
        Signer { key, addr }
    }

    /// Signed legacy transaction, RLP encoded (hex without 0x). `to = None` creates.
    pub fn sign(&self, chain_id: Option<u64>, nonce: u64, to: Option<[u8; 20]>, data: &[u8]) -> String {
        let tx = TxLegacy {
            chain_id,
            nonce,
            gas_price: 0,
            gas_limit: 0,
            to: match to {
                Some(a) => TxKind::Call(Address::from(a)),
                None => TxKind::Create,
            },
            value: U256::ZERO,
            input: Bytes::from(data.to_vec()),
        };
        let hash = tx.signature_hash();
        let sig = self.key.sign_hash_sync(&hash).expect("sign");
        let mut out = Vec::new();
        tx.rlp_encode_signed(&sig, &mut out);
        hex::encode(out)
    }
}

/// CREATE address = keccak(rlp([sender, nonce]))[12..]
pub fn create_address(sender: &[u8; 20], nonce: u64) -> [u8; 20] {
    Address::from(*sender).create(nonce).0 .0
}

// ---------------------------------------------------------------------------------------------
// Driver: executes ops on one instance and keeps the protocol shadow
// ---------------------------------------------------------------------------------------------

pub struct Driver {
    pub inst: Inst,
    pub log: Vec<(Op, Resp)>,
    /// Surviving chain: for every finalised height the ops that built it (incl. the finalise).
    pub chain: Vec<Vec<Op>>,
    /// Responses parallel to `chain`.
    pub chain_resp: Vec<Vec<Resp>>,
    /// Accepted ops of the block under construction.
    pub cur: Vec<Op>,
    pub cur_resp: Vec<Resp>,
    pub ntx: u64,
    pub open: Option<(u64, String)>,
    /// Latest finalised height, -1 if none.
    pub height: i64,
    pub committed: i64,
    /// The ops of `cur` at the last accepted commit (signed transactions parked in the open block; a
    /// commit is only accepted while nothing was executed in it): they are on disk, a clearCaches or
    /// restart brings the open block back to exactly them.
    pub committed_parked: Vec<Op>,
    pub committed_parked_resp: Vec<Resp>,
    /// Highest block ever finalised on this directory.
    pub max_ever: i64,
    pub record: bool,
}

impl Driver {
    pub fn new(inst: Inst) -> Driver {
        Driver {
            inst,
            log: Vec::new(),
            chain: Vec::new(),
            chain_resp: Vec::new(),
            cur: Vec::new(),
            cur_resp: Vec::new(),
            ntx: 0,
            open: None,
            height: -1,
            committed: -1,
            committed_parked: Vec::new(),
            committed_parked_resp: Vec::new(),
            max_ever: -1,
            record: true,
        }
    }

    pub fn next_height(&self) -> u64 {
        (self.height + 1) as u64
    }

    /// Execute one op, update the shadow from the response, return the response.
    pub fn exec(&mut self, op: Op) -> Resp {
        let resp = apply(&mut self.inst, &op);
        self.absorb(&op, &resp);
        if self.record {
            self.log.push((op, resp.clone()));
        }
        resp
    }

    fn absorb(&mut self, op: &Op, resp: &Resp) {
        let ok = resp.is_ok();
        match op {
            Op::Init { .. } => {
                // Success, or the documented environment error after genesis was created.
                let env_err = resp.err_msg().map(|m| m.contains("Bitcoin RPC")).unwrap_or(false);
                if (ok || env_err) && self.cur.is_empty() && self.height + 1 == match op {
                    Op::Init { height, .. } => *height as i64,
                    _ => unreachable!(),
                } {
                    self.chain.push(vec![op.clone()]);
                    self.chain_resp.push(vec![resp.clone()]);
                    self.height += 1;
                    self.max_ever = self.max_ever.max(self.height);
                }
            }
            Op::Mine { n, ts } => {
                if ok {
                    for i in 0..*n {
                        // signed transactions parked in the open block (it had no executed transaction,
                        // or mining would have been refused) belong to the first mined block
                        let mut ops = if i == 0 { std::mem::take(&mut self.cur) } else { Vec::new() };
                        let mut rs = if i == 0 { std::mem::take(&mut self.cur_resp) } else { Vec::new() };
                        ops.push(Op::Mine { n: 1, ts: *ts });
                        rs.push(resp.clone());
                        self.chain.push(ops);
                        self.chain_resp.push(rs);
                        self.height += 1;
                    }
                    self.ntx = 0;
                    self.open = None;
                    self.max_ever = self.max_ever.max(self.height);
                }
            }
            Op::Deploy { ctx, .. } | Op::Call { ctx, .. } | Op::Deposit { ctx, .. } | Op::Withdraw { ctx, .. } => {
                if ok {
                    if self.ntx == 0 {
                        self.open = Some((ctx.ts, ctx.hash.clone()));
                    }
                    self.ntx += 1;
                    self.cur.push(op.clone());
                    self.cur_resp.push(resp.clone());
                }
            }
            Op::Transact { ctx, .. } => {
                if ok {
                    let n = receipts_in(resp).len() as u64;
                    if n > 0 && self.ntx == 0 {
                        self.open = Some((ctx.ts, ctx.hash.clone()));
                    }
                    self.ntx += n;
                    self.cur.push(op.clone());
                    self.cur_resp.push(resp.clone());
                }
            }
            Op::Finalise { .. } => {
                if ok {
                    let mut ops = std::mem::take(&mut self.cur);
                    ops.push(op.clone());
                    self.chain.push(ops);
                    let mut rs = std::mem::take(&mut self.cur_resp);
                    rs.push(resp.clone());
                    self.chain_resp.push(rs);
                    self.height += 1;
                    self.max_ever = self.max_ever.max(self.height);
                    self.ntx = 0;
                    self.open = None;
                }
            }
            Op::Commit => {
                if ok {
                    self.committed = self.height;
                    self.committed_parked = self.cur.clone();
                    self.committed_parked_resp = self.cur_resp.clone();
                }
            }
            Op::Clear | Op::Reopen => {
                if ok {
                    self.height = self.committed;
                    self.chain.truncate((self.committed + 1) as usize);
                    self.chain_resp.truncate((self.committed + 1) as usize);
                    // transactions parked before the last commit were written out with it
                    self.cur = self.committed_parked.clone();
                    self.cur_resp = self.committed_parked_resp.clone();
                    self.ntx = 0;
                    self.open = None;
                }
            }
            Op::Reorg { n } => {
                // an accepted reorg rolls every table back to n and writes the result out, also when
                // n is the current height (then only entries of an open block of parked transactions go)
                if ok && (*n as i64) <= self.height {
                    self.chain.truncate(*n as usize + 1);
                    self.chain_resp.truncate(*n as usize + 1);
                    self.height = *n as i64;
                    self.committed = self.height;
                    self.cur.clear();
                    self.cur_resp.clear();
                    self.committed_parked.clear();
                    self.committed_parked_resp.clear();
                    self.ntx = 0;
                    self.open = None;
                }
            }
            Op::Raw { .. } => {}
        }
    }

    /// The ops that build the surviving chain up to and including height `n` (runs of single mined
    /// blocks with one timestamp are merged into one call).
    pub fn prefix_ops(&self, n: u64) -> Vec<Op> {
        let mut out: Vec<Op> = Vec::new();
        for op in self.chain.iter().take(n as usize + 1).flatten() {
            if let (Op::Mine { n: k, ts }, Some(Op::Mine { n: pk, ts: pts })) = (op, out.last_mut()) {
                if ts == pts {
                    *pk += *k;
                    continue;
                }
            }
            out.push(op.clone());
        }
        out
    }

    /// Everything the last accepted commit wrote out: the chain up to the committed height plus the
    /// signed transactions that were parked in the open block at that commit.
    pub fn committed_ops(&self) -> Vec<Op> {
        let mut out = if self.committed >= 0 { self.prefix_ops(self.committed as u64) } else { Vec::new() };
        out.extend(self.committed_parked.iter().cloned());
        out
    }

    /// Mine empty blocks up to (excluding) height `base`, committing in chunks so memory stays flat,
    /// as an indexer does before the first programmable block. The calls are part of the call log, so
    /// twins that replay the log do the same.
    pub fn mine_to(&mut self, base: u64) -> bool {
        let mut left = base.saturating_sub(self.next_height());
        let mut ok = true;
        while left > 0 {
            let k = left.min(25_000);
            if !self.exec(Op::Mine { n: k, ts: 1 }).is_ok() {
                ok = false;
                break;
            }
            left -= k;
            self.exec(Op::Commit);
        }
        ok
    }
}

/// Replay a list of ops on an instance without any shadow (for twins); returns responses.
pub fn replay(inst: &mut Inst, ops: &[Op]) -> Vec<Resp> {
    ops.iter().map(|op| apply(inst, op)).collect()
}

// ---------------------------------------------------------------------------------------------
// World + generator
// ---------------------------------------------------------------------------------------------

#[derive(Clone, Debug)]
pub struct Profile {
    pub w_deploy: u64,
    pub w_call: u64,
    pub w_transact: u64,
    pub w_deposit: u64,
    pub w_withdraw: u64,
    pub w_token: u64,
    pub max_txs_per_block: u64,
    pub p_empty_block: u64, // out of 100
    /// a block in which the EVM refuses every transaction (allowance below the intrinsic cost): it lists
    /// transactions, all failed, and has used no gas (out of 100)
    pub p_refused_block: u64,
    pub p_b64: u64,         // out of 100
    pub p_zero_hash: u64,   // out of 100
    pub p_future_nonce: u64,
    pub use_probe: bool,
    /// out of 100: a block with 257..300 cheap transactions (indices cross one byte)
    pub p_big_block: u64,
    /// out of 100: a big block has 1025..1100 transactions instead
    pub huge_pct: u64,
    /// how many big blocks a history may still get
    pub big_blocks_left: u64,
    /// after this many generated blocks, mine `.1` empty blocks in one go (two transaction-bearing
    /// stretches of the chain end up more than 2^16 blocks apart)
    pub gap: Option<(u64, u64)>,
    /// out of 100: identifiers that are long / contain quotes, backslashes, non-ASCII
    pub p_odd_ids: u64,
}

impl Default for Profile {
    fn default() -> Self {
        Profile {
            w_deploy: 2,
            w_call: 10,
            w_transact: 4,
            w_deposit: 2,
            w_withdraw: 1,
            w_token: 1,
            max_txs_per_block: 5,
            p_empty_block: 20,
            p_refused_block: 4,
            p_b64: 15,
            p_zero_hash: 20,
            p_future_nonce: 30,
            use_probe: true,
            p_big_block: 0,
            huge_pct: 25,
            big_blocks_left: 3,
            gap: None,
            p_odd_ids: 4,
        }
    }
}

/// How many blocks of 257..300 transactions the generators of this process produced.
pub static BIG_BLOCKS: std::sync::atomic::AtomicU64 = std::sync::atomic::AtomicU64::new(0);

pub struct World {
    pub rng: Rng,
    pub chain_id: u64,
    pub pks: Vec<String>,
    pub signers: Vec<Signer>,
    pub tools: Vec<String>,
    pub tool_iids: Vec<String>,
    pub batchers: Vec<String>,
    pub tickers: Vec<String>,
    pub uniq: u64,
    pub tag: u64,
    pub ts: u64,
    pub slots: BTreeSet<u64>,
    pub hot_slots: Vec<u64>,
    pub profile: Profile,
    pub probe_base: u64,
    /// height at which the chain is initialised (empty blocks below it are mined first)
    pub base: u64,
    /// signers (by index) that have a transaction waiting for a predecessor
    pub owed: Vec<(usize, u64)>,
    pub blocks_made: u64,
    /// the last call the EVM refused (sender, target, data): a refused transaction does not use up its
    /// nonce, so the identical call sent again later is the same transaction once more
    pub last_refused: Option<(String, String, Vec<u8>)>,
}

impl World {
    pub fn new(seed: u64, chain_id: u64) -> World {
        let mut rng = Rng::new(seed);
        let tag = rng.next() & 0xffff_ffff;
        let pks = (0..4)
            .map(|i| {
                let mut v = vec![0x51u8, 0x20];
                v.extend_from_slice(&[0xA0 + i as u8; 32]);
                hex::encode(v)
            })
            .collect();
        let signers = (1..=3).map(Signer::new).collect();
        World {
            rng,
            chain_id,
            pks,
            signers,
            tools: vec![],
            tool_iids: vec![],
            batchers: vec![],
            tickers: vec!["ordi".into(), "SATS".into(), "Ab".into()],
            uniq: 0,
            tag,
            ts: 1_700_000_000,
            slots: BTreeSet::new(),
            hot_slots: vec![1, 2, 3, 0xffff_0001],
            profile: Profile::default(),
            probe_base: 0x1000,
            base: 0,
            owed: Vec::new(),
            blocks_made: 0,
            last_refused: None,
        }
    }

    pub fn uniq(&mut self) -> u64 {
        self.uniq += 1;
        (self.tag << 24) | self.uniq
    }

    pub fn iid(&mut self) -> String {
        let u = self.uniq();
        if self.profile.p_odd_ids > 0 && self.rng.chance(self.profile.p_odd_ids, 100) {
            return match self.rng.below(8) {
                0 | 5 => format!("{:064x}i{}{}", u, u % 3, "0".repeat(300)),
                6 => format!("{:0256x}", u),  // exactly 256 bytes
                7 => format!("{:0255x}", u),  // exactly 255 bytes
                1 => format!("\"quoted\\{:x}\"i0", u),
                2 => format!("ünï-{:x}-漢字i0", u),
                3 => format!("{:x}", u),
                _ => format!("{:064x}i{}\u{0}tail", u, u % 3),
            };
        }
        format!("{:064x}i{}", u, u % 3)
    }

    pub fn txid(&mut self) -> String {
        let u = self.uniq();
        format!("0x{:016x}{:048x}", 0x7a7a7a7a7a7a7a7au64, u)
    }

    pub fn block_hash(&mut self) -> String {
        if self.rng.chance(self.profile.p_zero_hash, 100) {
            ZERO_HASH.to_string()
        } else {
            let u = self.uniq();
            format!("0x{:016x}{:048x}", 0xb10cb10cb10cb10cu64, u)
        }
    }

    pub fn enc(&mut self) -> Enc {
        if self.rng.chance(self.profile.p_b64, 100) {
            Enc::B64
        } else {
            Enc::Hex
        }
    }

    pub fn value_word(&mut self) -> [u8; 32] {
        // unique, so that an observed value identifies the write it came from
        let u = self.uniq();
        let mut w = [0u8; 32];
        w[0] = 0x5a;
        w[24..].copy_from_slice(&u.to_be_bytes());
        w
    }

    pub fn slot(&mut self) -> u64 {
        let s = if self.rng.chance(4, 5) { *self.rng.pick(&self.hot_slots.clone()) } else { self.rng.range(4, 12) };
        self.slots.insert(s);
        s
    }

    /// Random Tool call data (state-changing mix).
    pub fn tool_calldata(&mut self) -> Vec<u8> {
        let w = [12u64, 3, 6, 4, 3, 2, 2, 2, 2, 1, 1, 2, 3, 2];
        match self.rng.weighted(&w) {
            13 => {
                // a Bitcoin helper that needs the parents of a transaction's inputs (from the node)
                let chain = crate::fakebtc::chain();
                let t = &chain.txs[*self.rng.pick(&[2usize, 2, 3, 7])];
                let (pc, input) = if self.rng.chance(2, 3) { (crate::pre::PC_TXDETAILS, crate::pre::get_tx_details(&t.txid_b32)) } else { (crate::pre::PC_LASTSAT, crate::pre::get_last_sat_location(&t.txid_b32, 0, 5)) };
                asm::tool_call(if self.rng.chance(1, 2) { asm::OP_CALL } else { asm::OP_STATIC }, &[asm::word_u64(pc)], &input)
            }
            0 => {
                // sstore: unique value, same value again, or zero
                let slot = self.slot();
                let v = match self.rng.below(7) {
                    0 => [0u8; 32],
                    1 | 2 => asm::word_u64(7), // shared constants: same-value overwrites and A, B, A sequences happen
                    3 => asm::word_u64(8),
                    _ => self.value_word(),
                };
                asm::tool_call(asm::OP_SSTORE, &[asm::word_u64(slot), v], &[])
            }
            1 => asm::tool_call(asm::OP_INC, &[asm::word_u64(self.slot())], &[]),
            2 => {
                let n = self.rng.below(5);
                let shared = asm::word_u64(0xAAA0 + self.rng.below(3));
                let args = [asm::word_u64(n), shared, asm::word_u64(0xBBB0 + self.rng.below(3)), self.value_word(), asm::word_u64(0xDDD0), self.value_word()];
                asm::tool_call(asm::OP_LOG, &args, &[])
            }
            3 => {
                let cnt = self.rng.range(2, 4);
                let base = self.uniq() << 8;
                asm::tool_call(asm::OP_LOGS, &[asm::word_u64(cnt), asm::word_u64(0xAAA0 + self.rng.below(3)), asm::word_u64(base)], &[])
            }
            4 => {
                // create child tool (sometimes with ctor effects)
                let init = if self.rng.chance(1, 2) { asm::tool_init() } else { asm::tool_init_with_ctor() };
                asm::tool_call(asm::OP_CREATE, &[], &init)
            }
            5 => {
                let salt = self.value_word();
                asm::tool_call(asm::OP_CREATE2, &[salt], &asm::tool_init())
            }
            6 => asm::tool_call(asm::OP_REVERT, &[self.value_word()], &[]),
            7 => asm::tool_call(asm::OP_INVALID, &[], &[]),
            8 => asm::tool_call(asm::OP_BURN, &[asm::word_u64(self.rng.range(0, 300))], &[]),
            9 => asm::tool_call(asm::OP_SELFDESTRUCT, &[asm::word_u64(0xdead)], &[]),
            10 => asm::tool_call(asm::OP_COND, &[asm::word_u64(self.slot()), asm::word_u64(7)], &[]),
            11 => {
                // nested call into another tool: sstore there
                let target = if self.tools.is_empty() { [0u8; 20] } else { parse_addr(&self.rng.pick(&self.tools.clone()).clone()) };
                let inner = asm::tool_call(asm::OP_SSTORE, &[asm::word_u64(self.slot()), self.value_word()], &[]);
                asm::tool_call(asm::OP_CALL, &[asm::word_addr(&target)], &inner)
            }
            _ => {
                if self.profile.use_probe {
                    self.probe_base += 0x20;
                    let k = self.rng.below(4);
                    asm::tool_call(asm::OP_PROBE, &[asm::word_u64(self.probe_base), asm::word_u64(k), asm::word_u64(self.rng.below(6))], &[])
                } else {
                    asm::tool_call(asm::OP_INC, &[asm::word_u64(self.slot())], &[])
                }
            }
        }
    }
}

/// A distinctive 32-byte value (high byte set) for explicit block hashes, topics and txids: it can
/// never equal a server-generated block hash (24 zero bytes + number + 1).
pub fn bh(x: u64) -> String {
    format!("0x9e{:062x}", x)
}

pub fn hx(b: &[u8]) -> String {
    format!("0x{}", hex::encode(b))
}

/// Learn created contract addresses from a receipt-bearing response.
pub fn created_address(resp: &Resp) -> Option<String> {
    for r in receipts_in(resp) {
        if let Some(a) = r.get("contractAddress").and_then(|a| a.as_str()) {
            if r.get("status").and_then(|s| s.as_str()) == Some("0x1") {
                return Some(a.to_string());
            }
        }
    }
    None
}

pub fn account_nonce(inst: &mut Inst, addr: &[u8; 20]) -> u64 {
    match inst.call("eth_getTransactionCount", json!([addr_hex(addr), "latest"])) {
        Resp::Ok(Value::String(s)) => u64::from_str_radix(s.trim_start_matches("0x"), 16).unwrap_or(0),
        _ => 0,
    }
}

impl World {
    /// Make sure the open block context exists; returns (ts, hash).
    pub fn block_ctx(&mut self, d: &Driver) -> (u64, String) {
        if let Some((ts, h)) = &d.open {
            (*ts, h.clone())
        } else {
            self.ts += self.rng.range(1, 600);
            (self.ts, self.block_hash())
        }
    }

    /// Generate and execute one transaction-type op into the open block.
    pub fn gen_tx(&mut self, d: &mut Driver, blk: &(u64, String)) -> Resp {
        let p = self.profile.clone();
        let have_tool = !self.tools.is_empty();
        let w = [
            if have_tool { p.w_deploy } else { 10 },
            if have_tool { p.w_call } else { 0 },
            p.w_transact,
            p.w_deposit,
            p.w_withdraw,
            p.w_token,
        ];
        let ctx = Ctx { ts: blk.0, hash: blk.1.clone(), idx: d.ntx };
        let pk = self.rng.pick(&self.pks.clone()).clone();
        match self.rng.weighted(&w) {
            0 => {
                let (code, is_batcher) = match self.rng.below(6) {
                    0 => (asm::batcher_init(), true),
                    1 => (asm::tool_init_with_ctor(), false),
                    _ => (asm::tool_init(), false),
                };
                let iid = self.iid();
                let op = Op::Deploy { pk, data: hx(&code), enc: self.enc(), ctx, iid: iid.clone(), len: 200_000, txid: self.txid() };
                let r = d.exec(op);
                if let Some(a) = created_address(&r) {
                    if is_batcher {
                        self.batchers.push(a);
                    } else {
                        self.tools.push(a);
                        self.tool_iids.push(iid);
                    }
                }
                r
            }
            1 => {
                let i = self.rng.below(self.tools.len() as u64) as usize;
                let target = if self.rng.chance(1, 4) { Target::Iid(self.tool_iids[i].clone()) } else { Target::Addr(self.tools[i].clone()) };
                if !self.batchers.is_empty() && self.rng.chance(1, 10) {
                    // one transaction: the tool creates child A, A self-destructs (created and destroyed
                    // in the same transaction: it vanishes), the tool creates B with the very same code
                    let t = parse_addr(&self.tools[i]);
                    let n = account_nonce(&mut d.inst, &t);
                    let a = create_address(&t, n);
                    let init = asm::tool_init();
                    let entries = [
                        (t, asm::tool_call(asm::OP_CREATE, &[], &init)),
                        (a, asm::tool_call(asm::OP_SELFDESTRUCT, &[asm::word_u64(0xdead)], &[])),
                        (t, asm::tool_call(asm::OP_CREATE, &[], &init)),
                    ];
                    let b = self.rng.pick(&self.batchers.clone()).clone();
                    let cd = asm::batch_call(false, &entries);
                    let op = Op::Call { pk, target: Target::Addr(b), data: Some(hx(&cd)), enc: self.enc(), ctx, iid: self.iid(), len: 1_000_000, txid: self.txid() };
                    let r = d.exec(op);
                    if receipts_in(&r).first().map(|rc| rc["status"].as_str() == Some("0x1")).unwrap_or(false) && self.tools.len() < 12 {
                        let twin = addr_hex(&create_address(&t, n + 1));
                        if !self.tools.contains(&twin) {
                            self.tools.push(twin);
                            self.tool_iids.push(String::from("none"));
                        }
                    }
                    return r;
                }
                let data = if !self.batchers.is_empty() && self.rng.chance(1, 8) {
                    // go through the batcher: two sub-calls
                    let t = parse_addr(&self.tools[i]);
                    let e1 = (t, self.tool_calldata());
                    let e2 = (t, self.tool_calldata());
                    let b = self.rng.pick(&self.batchers.clone()).clone();
                    let cd = asm::batch_call(self.rng.chance(1, 2), &[e1, e2]);
                    let op = Op::Call { pk, target: Target::Addr(b), data: Some(hx(&cd)), enc: self.enc(), ctx, iid: self.iid(), len: 500_000, txid: self.txid() };
                    return d.exec(op);
                } else {
                    self.tool_calldata()
                };
                // allowance: usually ample, sometimes tight
                let len = match self.rng.below(10) {
                    0 => self.rng.range(0, 6),
                    _ => 100_000,
                };
                let op = Op::Call { pk, target, data: Some(hx(&data)), enc: self.enc(), ctx, iid: self.iid(), len, txid: self.txid() };
                let r = d.exec(op);
                if let Some(first) = data.first() {
                    if *first == asm::OP_CREATE || *first == asm::OP_CREATE2 {
                        // child address is in the trace output; learn it through eth_getStorageAt(0xc0de)
                        if let Resp::Ok(Value::String(s)) = d.inst.call("eth_getStorageAt", json!([self.tools[i], "0xc0de"])) {
                            let a = format!("0x{}", &s[s.len().saturating_sub(40)..]);
                            if a != "0x0000000000000000000000000000000000000000" && !self.tools.contains(&a) && self.tools.len() < 12 {
                                self.tools.push(a);
                                self.tool_iids.push(String::from("none"));
                            }
                        }
                    }
                }
                r
            }
            2 => {
                // a signer with a transaction waiting is likely to send the missing predecessor soon
                // (in a later block, so that a block boundary - and perhaps a commit - lies in between)
                let here = d.next_height();
                let due = self.owed.iter().position(|(_, at)| *at < here);
                let pay = due.is_some() && self.rng.chance(2, 3);
                let si = if pay { self.owed.remove(due.unwrap()).0 } else { self.rng.below(self.signers.len() as u64) as usize };
                let signer = self.signers[si].clone();
                let cur = account_nonce(&mut d.inst, &signer.addr);
                let nonce = if pay {
                    cur
                } else if self.rng.chance(p.p_future_nonce, 100) {
                    // half of the waiting transactions are the direct successor (drained by the next one)
                    if self.rng.chance(1, 2) { cur + 1 } else { cur + self.rng.range(1, 11) }
                } else if self.rng.chance(1, 12) && cur > 0 {
                    cur - 1
                } else {
                    cur
                };
                if nonce == cur + 1 && !self.owed.iter().any(|(x, _)| *x == si) {
                    self.owed.push((si, here));
                }
                let chain = if !pay && self.rng.chance(1, 20) { Some(1) } else { Some(self.chain_id) };
                let (to, mut data) = if have_tool && nonce > cur && self.profile.use_probe && self.rng.chance(1, 2) {
                    // a transaction that will wait: let it record the context it finally runs in (block,
                    // sender, the bitcoin transaction id supplied with it) when it is drained
                    let t = parse_addr(&self.tools[0].clone());
                    self.probe_base += 0x20;
                    let k = self.rng.below(4);
                    (Some(t), asm::tool_call(asm::OP_PROBE, &[asm::word_u64(self.probe_base), asm::word_u64(k), asm::word_u64(self.rng.below(6))], &[]))
                } else if have_tool && self.rng.chance(4, 5) {
                    let t = parse_addr(&self.rng.pick(&self.tools.clone()).clone());
                    (Some(t), self.tool_calldata())
                } else {
                    (None, asm::tool_init())
                };
                // signer-specific trailing bytes (ignored by the contracts): where transaction hashes
                // are signing hashes (mainnet below the RLP-hash height) two signers sending the same
                // (nonce, to, data) would get the same hash, a legacy collision that is a finding of its
                // own (C06) and would otherwise end many histories early
                data.extend_from_slice(&[0xee, si as u8]);
                let raw = signer.sign(chain, nonce, to, &data);
                let len = (raw.len() / 2) as u64 + 100_000;
                let op = Op::Transact { raw: format!("0x{}", raw), enc: self.enc(), ctx, iid: self.iid(), len, txid: self.txid() };
                d.exec(op)
            }
            3 => {
                let ticker = self.rng.pick(&self.tickers.clone()).clone();
                let amount = format!("0x{:x}", self.rng.range(1, 1_000_000));
                d.exec(Op::Deposit { pk, ticker, amount, ctx, iid: self.iid() })
            }
            4 => {
                let ticker = self.rng.pick(&self.tickers.clone()).clone();
                let amount = format!("0x{:x}", self.rng.range(1, 500_000));
                d.exec(Op::Withdraw { pk, ticker, amount, ctx, iid: self.iid() })
            }
            _ => {
                // controller transfer(bytes ticker, address to, uint256 value) from a pkscript holder
                let ticker = self.rng.pick(&self.tickers.clone()).clone().to_lowercase();
                let to = pk_address(&self.rng.pick(&self.pks.clone()).clone());
                let data = controller_transfer(ticker.as_bytes(), &to, self.rng.range(1, 1000));
                let op = Op::Call { pk, target: Target::Addr(CONTROLLER.to_string()), data: Some(hx(&data)), enc: self.enc(), ctx, iid: self.iid(), len: 100_000, txid: self.txid() };
                d.exec(op)
            }
        }
    }

    /// Open the next block with nothing but signed transactions whose nonce is ahead of the account:
    /// they are parked, the block has no executed transaction, so a reorg is still accepted.
    /// Returns the number of transactions parked.
    pub fn park_only(&mut self, d: &mut Driver) -> u64 {
        if self.signers.is_empty() || d.ntx != 0 {
            return 0;
        }
        let blk = self.block_ctx(d);
        let mut parked = 0;
        for _ in 0..self.rng.range(1, 2) {
            let si = self.rng.below(self.signers.len() as u64) as usize;
            let signer = self.signers[si].clone();
            let cur = account_nonce(&mut d.inst, &signer.addr);
            let nonce = cur + self.rng.range(1, 9);
            let mut data = asm::tool_init();
            data.extend_from_slice(&[0xee, si as u8]);
            let raw = signer.sign(Some(self.chain_id), nonce, None, &data);
            let len = (raw.len() / 2) as u64 + 100_000;
            let ctx = Ctx { ts: blk.0, hash: blk.1.clone(), idx: d.ntx };
            let r = d.exec(Op::Transact { raw: format!("0x{}", raw), enc: Enc::Hex, ctx, iid: self.iid(), len, txid: self.txid() });
            if r.is_ok() && receipts_in(&r).is_empty() {
                parked += 1;
            }
        }
        parked
    }

    /// Generate and execute one whole block (possibly empty / mined).
    pub fn gen_block(&mut self, d: &mut Driver) {
        // (also when a clearCaches / restart took an uncommitted initialise block away again)
        if d.height < 0 || (self.base > 0 && d.height < self.base as i64) {
            self.ts += 10;
            let hash = self.block_hash();
            if self.base > 0 {
                d.mine_to(self.base);
            }
            d.exec(Op::Init { hash, ts: self.ts, height: self.base });
            return;
        }
        self.blocks_made += 1;
        if let Some((after, n)) = self.profile.gap {
            if self.blocks_made == after + 1 && d.ntx == 0 {
                self.ts += 10;
                d.exec(Op::Mine { n, ts: self.ts });
                return;
            }
        }
        if self.profile.p_big_block > 0 && self.profile.big_blocks_left > 0 && !self.tools.is_empty() && self.rng.chance(self.profile.p_big_block, 100) {
            self.profile.big_blocks_left -= 1;
            // a block whose transaction (and log) indices cross 255 -> 256
            BIG_BLOCKS.fetch_add(1, std::sync::atomic::Ordering::Relaxed);
            let blk = self.block_ctx(d);
            // ... and now and then four-digit counts
            let n = if self.rng.chance(self.profile.huge_pct, 100) { self.rng.range(1025, 1100) } else { self.rng.range(257, 300) };
            let pk = self.pks[0].clone();
            let tool = self.tools[0].clone();
            for i in 0..n {
                // more than 256 logs in the block as well (log indices cross one byte)
                let data = match i % 3 {
                    0 => asm::tool_call(asm::OP_LOG, &[asm::word_u64(2), asm::word_u64(0xAAA0 + i % 3), asm::word_u64(0xBBB0 + i % 2), [0u8; 32], [0u8; 32], asm::word_u64(i)], &[]),
                    1 => asm::tool_call(asm::OP_LOGS, &[asm::word_u64(3), asm::word_u64(0xAAA0 + i % 2), asm::word_u64(i << 8)], &[]),
                    _ => asm::tool_call(asm::OP_INC, &[asm::word_u64(3)], &[]),
                };
                let ctx = Ctx { ts: blk.0, hash: blk.1.clone(), idx: d.ntx };
                d.exec(Op::Call { pk: pk.clone(), target: Target::Addr(tool.clone()), data: Some(hx(&data)), enc: Enc::Hex, ctx, iid: self.iid(), len: 100_000, txid: self.txid() });
            }
            let blk = d.open.clone().unwrap_or(blk);
            d.exec(Op::Finalise { ts: blk.0, hash: blk.1, count: d.ntx });
            return;
        }
        if self.rng.chance(self.profile.p_empty_block, 100) {
            if self.rng.chance(1, 2) {
                self.ts += 10;
                let n = if self.rng.chance(1, 6) { self.rng.range(2, 3) } else { 1 };
                d.exec(Op::Mine { n, ts: self.ts });
            } else {
                let (ts, hash) = self.block_ctx(d);
                d.exec(Op::Finalise { ts, hash, count: 0 });
            }
            return;
        }
        if !self.tools.is_empty() && self.rng.chance(self.profile.p_refused_block, 100) {
            let blk = self.block_ctx(d);
            // a sender of its own, so that nothing else moves its nonce between the attempts
            let refuse_pk = format!("5120{:056x}{:08x}", self.tag as u128, 0x4ef0_5edu32);
            for k in 0..self.rng.range(1, 3) {
                let (pk, tool, data) = match (&self.last_refused, k) {
                    // the retry of an earlier refused call: byte for byte the same transaction
                    (Some(l), 0) if self.rng.chance(1, 2) => l.clone(),
                    _ => (if self.rng.chance(1, 2) { refuse_pk.clone() } else { self.rng.pick(&self.pks.clone()).clone() }, self.rng.pick(&self.tools.clone()).clone(), self.tool_calldata()),
                };
                let ctx = Ctx { ts: blk.0, hash: blk.1.clone(), idx: d.ntx };
                let len = self.rng.below(2);
                if pk == refuse_pk {
                    self.last_refused = Some((pk.clone(), tool.clone(), data.clone()));
                }
                d.exec(Op::Call { pk, target: Target::Addr(tool), data: Some(hx(&data)), enc: self.enc(), ctx, iid: self.iid(), len, txid: self.txid() });
            }
            let blk = d.open.clone().unwrap_or(blk);
            d.exec(Op::Finalise { ts: blk.0, hash: blk.1, count: d.ntx });
            return;
        }
        let blk = self.block_ctx(d);
        let n = self.rng.range(1, self.profile.max_txs_per_block);
        for _ in 0..n {
            self.gen_tx(d, &blk);
        }
        let blk = d.open.clone().unwrap_or(blk);
        d.exec(Op::Finalise { ts: blk.0, hash: blk.1, count: d.ntx });
    }
}

pub const CONTROLLER: &str = "0xc54dd4581af2dbf18e4d90840226756e9d2b3cdb";
pub const INDEXER: &str = "0x0000000000000000000000000000000000003ca6";

fn selector(sig: &str) -> [u8; 4] {
    let h = keccak256(sig.as_bytes());
    [h[0], h[1], h[2], h[3]]
}

fn pad32(b: &[u8]) -> Vec<u8> {
    let mut v = b.to_vec();
    while v.len() % 32 != 0 {
        v.push(0);
    }
    v
}

/// ABI: f(bytes ticker, <static words...>) — ticker is the first (dynamic) argument.
pub fn abi_bytes_then_words(sig: &str, ticker: &[u8], words: &[[u8; 32]]) -> Vec<u8> {
    let mut v = selector(sig).to_vec();
    let head = 32 * (1 + words.len());
    v.extend_from_slice(&asm::word_u64(head as u64));
    for w in words {
        v.extend_from_slice(w);
    }
    v.extend_from_slice(&asm::word_u64(ticker.len() as u64));
    v.extend_from_slice(&pad32(ticker));
    v
}

pub fn controller_transfer(ticker: &[u8], to: &[u8; 20], amount: u64) -> Vec<u8> {
    abi_bytes_then_words("transfer(bytes,address,uint256)", ticker, &[asm::word_addr(to), asm::word_u64(amount)])
}

pub fn abi_words(sig: &str, words: &[[u8; 32]]) -> Vec<u8> {
    let mut v = selector(sig).to_vec();
    for w in words {
        v.extend_from_slice(w);
    }
    v
}
