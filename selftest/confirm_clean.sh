#!/bin/bash
# confirm_clean.sh <out dir of the seed (patch.diff, demo.rs)> <demo test name> [cargo test extra args]
# Confirms a seeded change on a fresh worktree of /repo: applies only patch.diff, runs the existing
# tests and the demo with the change, then the demo without it. Uses one shared build directory.
set -u
O="$1"; T="$2"; shift 2
W=/tmp/seed/confirm-wt
export CARGO_NET_OFFLINE=true CARGO_TARGET_DIR=/tmp/seed/confirm-target
git -C /repo worktree remove --force $W 2>/dev/null; git -C /repo worktree prune
git -C /repo worktree add --detach $W HEAD -q || exit 2
cd $W
LOG="$O/confirm.log"; : > "$LOG"
git apply "$O/patch.diff" || { echo "patch.diff does not apply to a clean checkout" >> "$LOG"; cat "$LOG"; exit 2; }
cp "$O/demo.rs" tests/$T.rs
echo "== git diff --stat (patch.diff alone on a clean checkout)" >> "$LOG"; git diff --stat >> "$LOG" 2>&1
echo "== existing tests WITH change (lib + transact + deploy_call + server_client)" >> "$LOG"
cargo test --offline --lib 2>&1 | grep -E "^test result|FAILED|failed|^error" | head -5 >> "$LOG"
for t in transact deploy_call server_client; do cargo test --offline --test $t 2>&1 | grep -E "^test result|FAILED|^error" | head -3 >> "$LOG"; done
echo "== demo $T WITH change" >> "$LOG"
timeout 1500 cargo test --offline "$@" --test "$T" 2>&1 | grep -E "^test |^test result|panicked|^error" | head -14 >> "$LOG"
echo "== demo $T WITHOUT change" >> "$LOG"
git checkout -- src
timeout 1500 cargo test --offline "$@" --test "$T" 2>&1 | grep -E "^test |^test result|panicked|^error" | head -14 >> "$LOG"
cd /; git -C /repo worktree remove --force $W; git -C /repo worktree prune
cat "$LOG"
