#!/bin/bash
cd /verif
S=$1; shift
for c in "$@"; do
  VERIF_ROOT=/verif VERIF_SEED=$S VERIF_EVIDENCE=/verif/out/ev-sweep /tmp/seed/vh-clean run $c thorough 2>&1 | grep -E "^(VIOLATION|RESULT|  what)" | cut -c1-300
done
echo SOME-DONE
