#!/bin/bash
for x in "$@"; do IFS=: read -r o t a b <<< "$x"; bash /verif/selftest/confirm_clean.sh /tmp/seed/out/$o $t $a $b > /tmp/seed/cc_$o.out 2>&1; done
