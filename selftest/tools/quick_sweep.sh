#!/bin/bash
cd /verif && ./check --build || exit 2
for sd in "$@"; do for c in C01 C02 C03 C04 C05 C06 C07 C08 C09 C10 C11 C12 C13 C14 C15 C16 C17 C18 C19 C20; do VERIF_ROOT=/verif VERIF_SEED=$sd VERIF_EVIDENCE=/verif/out/ev-sweep harness/target/verif/vh run $c quick 2>&1 | grep -E "VIOLATION|what:|RESULT" | cut -c1-230; done; done
echo SWEEP-DONE
