#!/bin/bash
# thorough_sweep.sh <seed>: every check, thorough, with the binary copy; memory sampled
cd /verif
( while true; do free -m | awk 'NR==2{print $3}'; sleep 10; done ) > /tmp/seed/mem-sweep.log &
MP=$!
for c in C01 C02 C03 C04 C05 C06 C07 C08 C09 C10 C11 C12 C13 C14 C15 C16 C17 C18 C19 C20; do
  : > /tmp/seed/mem-sweep.log
  VERIF_ROOT=/verif VERIF_SEED=$1 VERIF_EVIDENCE=/verif/out/ev-sweep /tmp/seed/vh-clean run $c thorough 2>&1 | grep -E "^(VIOLATION|RESULT|  what)" | cut -c1-300
  echo "   peak used MB during $c: $(sort -n /tmp/seed/mem-sweep.log | tail -1)"
done
kill $MP
echo SWEEP-DONE
