#!/bin/bash
# measure.sh <check> <tier> <seed>: run with memory sampling
cd /verif
( while true; do free -m | awk 'NR==2{print $3}'; sleep 10; done ) > /tmp/seed/mem.log &
MP=$!
VERIF_ROOT=/verif VERIF_SEED=$3 VERIF_EVIDENCE=/verif/out/ev-sweep harness/target/verif/vh run $1 $2 2>&1 | grep -E "^(VIOLATION|RESULT|  what)" | cut -c1-300
kill $MP
echo "peak used MB: $(sort -n /tmp/seed/mem.log | tail -1)"
