#!/bin/bash
# mk.sh <seed dir name> <out id> <prop> <needs>
S=/verif/seeded/$1; mkdir -p $S; cp /tmp/seed/out/$2/patch.diff /tmp/seed/out/$2/demo.rs /tmp/seed/out/$2/notes.md $S/
python3 - "$1" "$3" "$4" <<'EOF'
import json,sys
id,prop,needs=sys.argv[1:4]
json.dump({"id":id,"breaks_property":prop,"needs_to_manifest":needs,"origin":"independent sub-agent given only the property text, a scratch worktree and the one-line list of earlier seeded changes (to avoid repeats)","confirmed_by":"patch.diff alone applied to a fresh worktree: compiles; cargo test --lib + tests transact/deploy_call/server_client pass with the change; demo fails with the change and passes without (confirm.log)","checks_run":[]},open('/verif/seeded/%s/meta.json'%id,'w'),indent=1)
EOF
