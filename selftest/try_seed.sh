#!/bin/bash
# try_seed.sh <seeded dir> <check ids...> : apply the patch to /repo, run the checks (quick unless TIER=thorough), undo
set -u
D="$1"; shift
cd /verif
git -C /repo status --porcelain --untracked-files=no | grep -q . && { echo "repo dirty"; exit 2; }
git -C /repo apply "$D/patch.diff" || { echo "patch does not apply"; exit 2; }
for c in "$@"; do
  echo "--- $c ${TIER:-quick} (seed ${VERIF_SEED:-1})"
  VERIF_EVIDENCE=/verif/out/selftest-evidence ./check "$c" "${TIER:-quick}" 2>&1 | grep -E "VIOLATION|what:|RESULT" | cut -c1-400 | head -8
done
git -C /repo checkout -- .
