#!/bin/bash
# confirm_seed.sh <worktree> <out dir> : confirm a sub-agent's seeded change independently
# (compiles, existing tests pass, demo fails with the change and passes without it)
set -u
W="$1"; O="$2"
export CARGO_NET_OFFLINE=true CARGO_TARGET_DIR="$W/target"
cd "$W" || exit 2
LOG="$O/confirm.log"; : > "$LOG"
echo "== git diff --stat (source change)" >> "$LOG"; git diff --stat >> "$LOG" 2>&1
git diff > "$O/patch.confirmed.diff"
echo "== existing tests WITH change (lib + transact + deploy_call + server_client)" >> "$LOG"
cargo test --offline --lib 2>&1 | grep -E "^test result|FAILED|failed" | head -5 >> "$LOG"
for t in transact deploy_call server_client; do cargo test --offline --test $t 2>&1 | grep -E "^test result|FAILED" | head -3 >> "$LOG"; done
DEMOS=$(ls tests/seed_demo${DEMO_SUFFIX:-}*.rs 2>/dev/null)
[ -z "$DEMOS" ] && echo "== no tests/seed_demo*.rs in worktree (demo needs manual placement)" >> "$LOG"
for DEMO in $DEMOS; do
  T=$(basename "$DEMO" .rs)
  echo "== demo $T WITH change" >> "$LOG"
  cargo test --offline --test "$T" 2>&1 | grep -E "^test |^test result|panicked" | head -12 >> "$LOG"
  echo "== demo $T WITHOUT change" >> "$LOG"
  # (not git stash: the stash is shared by all worktrees of a repository)
  git diff > "$O/.reapply.diff"; git checkout -- .
  cargo test --offline --test "$T" 2>&1 | grep -E "^test |^test result|panicked" | head -12 >> "$LOG"
  git apply "$O/.reapply.diff"; rm -f "$O/.reapply.diff"
done
cat "$LOG"
