#!/usr/bin/env python3
# seed_result.py <seed id> <check label> <caught: yes|no> [signature]  -> appends to meta.json checks_run
import json,sys
p='/verif/seeded/%s/meta.json'%sys.argv[1]
d=json.load(open(p))
e={"check":sys.argv[2],"caught":sys.argv[3]=="yes"}
if len(sys.argv)>4: e["signature"]=sys.argv[4]
d.setdefault("checks_run",[]).append(e)
json.dump(d,open(p,'w'),indent=1)
