#!/usr/bin/env python3
"""Self-test: apply small mutants to /repo's working tree, run the named checks, undo.
Not part of the registered commands. Usage: run.py [mutant-id ...]   (default: all)
Results: /verif/selftest/results.json (mutant -> {check: caught?})"""
import json, subprocess, sys, os, time
R='/repo/'
M=[
 # id, file, old, new, checks
 ("M01-reorg-retain-lt","src/db/cached_database/block_history_cache.rs",".retain(|&key, _| key <= latest_valid_block_number);",".retain(|&key, _| key < latest_valid_block_number);",["C01","C13"]),
 ("M02-prune-lt","src/db/cached_database/block_history_cache.rs",".filter(|&&key| key + MAX_REORG_HISTORY_SIZE <= latest_block_number)",".filter(|&&key| key + MAX_REORG_HISTORY_SIZE <= latest_block_number + 1)",["C01","C13"]),
 ("M03-is-old-le","src/db/cached_database/block_history_cache.rs","return latest_stored_block_number + MAX_REORG_HISTORY_SIZE < latest_block_number;","return latest_stored_block_number + MAX_REORG_HISTORY_SIZE <= latest_block_number + 1;",["C13","C01","C04"]),
 ("M04-reorg-omits-receipts","src/db/brc20_prog_database.rs","""        self.db_tx_receipt
            .as_mut()
            .expect(DB_MUTEX_ERROR)
            .reorg(latest_valid_block_number)?;
""","",["C01"]),
 ("M05-engine-window-ge","src/engine/engine.rs","if current_block_height - latest_valid_block_number > MAX_REORG_HISTORY_SIZE {","if current_block_height - latest_valid_block_number >= MAX_REORG_HISTORY_SIZE {",["C01"]),
 ("M06-db-window-plus1","src/db/brc20_prog_database.rs","if max_global_block_number > MAX_REORG_HISTORY_SIZE + latest_valid_block_number {","if max_global_block_number > MAX_REORG_HISTORY_SIZE + 1 + latest_valid_block_number {",["C01"]),
 ("M07-commit-omits-code","src/db/brc20_prog_database.rs","""        self.db_code
            .as_mut()
            .expect(DB_MUTEX_ERROR)
            .commit(next_block)?;
""","",["C03","C04"]),
 ("M08-clear-keeps-latest-block","src/db/brc20_prog_database.rs","""        self.latest_block_number = None;
        Ok(())
    }

    pub fn reorg""","""        Ok(())
    }

    pub fn reorg""",["C03","C01"]),
 ("M09-latest-prefers-disk","src/db/cached_database/block_cached_database.rs","""        if let Some(cache) = self.cache.get(key) {
            return Ok(cache.latest());
        }
        if let Some(value) = self.db.get(&key.encode_vec())? {
            let value = V::decode_vec(&value.to_vec())?;
            return Ok(Some(value));
        }
        return Ok(None);""","""        if let Some(value) = self.db.get(&key.encode_vec())? {
            let value = V::decode_vec(&value.to_vec())?;
            return Ok(Some(value));
        }
        if let Some(cache) = self.cache.get(key) {
            return Ok(cache.latest());
        }
        return Ok(None);""",["C03","C13"]),
 ("M10-gas-per-byte","src/global/config.rs","pub const GAS_PER_BYTE: u64 = 12000;","pub const GAS_PER_BYTE: u64 = 12001;",["C02","C16"]),
 ("M11-locked-pkscript-gas","src/global/config.rs","pub const GAS_PER_LOCKED_PKSCRIPT: u64 = 20000;","pub const GAS_PER_LOCKED_PKSCRIPT: u64 = 20001;",["C02"]),
 ("M12-no-timestamp-check","src/engine/engine.rs","                if info.timestamp != timestamp {","                if false && info.timestamp != timestamp {",["C05"]),
 ("M13-commit-while-open","src/engine/engine.rs","""    pub fn commit_to_db(&self) -> Result<(), Box<dyn Error>> {
        self.require_no_waiting_txes()?;
""","""    pub fn commit_to_db(&self) -> Result<(), Box<dyn Error>> {
""",["C05"]),
 ("M14-log-index-not-advanced","src/engine/engine.rs","""                last_block_info.log_index +=
                    output.as_ref().map(|o| o.logs()).unwrap_or(&[]).len() as u64;""","""                last_block_info.log_index += 0 *
                    output.as_ref().map(|o| o.logs()).unwrap_or(&[]).len() as u64;""",["C06"]),
 ("M15-ticker-no-lowercase","src/server/rpc_server.rs","let ticker_lowercase = ticker.to_lowercase();","let ticker_lowercase = ticker.to_ascii_lowercase();",["C07"]),
 ("M16-pkscript-hash-slice","src/engine/utils.rs","address.copy_from_slice(&pkscript_hash[12..32]);","address.copy_from_slice(&pkscript_hash[0..20]);",["C07","C02","C19"]),
 ("M17-pool-blocks-11","src/global/config.rs","pub const MAX_FUTURE_TRANSACTION_BLOCKS: u64 = 10;","pub const MAX_FUTURE_TRANSACTION_BLOCKS: u64 = 11;",["C08"]),
 ("M18-nonce-window-le","src/engine/engine.rs","if nonce > account_nonce && nonce < account_nonce + MAX_FUTURE_TRANSACTION_NONCES {","if nonce > account_nonce && nonce <= account_nonce + MAX_FUTURE_TRANSACTION_NONCES {",["C08"]),
 ("M19-short-pkscript-panic","src/engine/precompiles/get_locked_pkscript_precompile.rs","    if pkscript.len() < 2 {","    if false && pkscript.len() < 2 {",["C09"]),
 ("M20-read-leaks-a-slot","src/engine/engine.rs","""            let output = evm.replay().map(|x| x.result);
            core::mem::swap(&mut *db, evm.ctx().db_mut());
""","""            let output = evm.replay().map(|x| x.result);
            core::mem::swap(&mut *db, evm.ctx().db_mut());
            if output.as_ref().map(|o| o.is_success()).unwrap_or(false) && tx_info.data.len() > 64 {
                let _ = db.set_account_memory(tx_info.from, U256::from(77), U256::from(1));
            }
""",["C10"]),
 ("M21-transact-unprotected","src/api/api.rs","""        "brc20_transact".to_string(),
""","",["C12"]),
 ("M22-auth-prefix-match","src/server/auth.rs","""                .and_then(|header| header.to_str().ok())
                == self.header.as_deref()""","""                .and_then(|header| header.to_str().ok())
                .map(|h| h.to_ascii_lowercase())
                == self.header.as_deref().map(|h| h.to_ascii_lowercase())""",["C12"]),
 ("M23-u64-little-endian","src/db/types/encode_decode.rs","""impl Encode for u64 {
    fn encode(&self, buffer: &mut Vec<u8>) {
        self.to_be_bytes().encode(buffer);""","""impl Encode for u64 {
    fn encode(&self, buffer: &mut Vec<u8>) {
        self.to_le_bytes().encode(buffer);""",["C14"]),
 ("M24-nada-limit","src/api/types.rs","nada::decode_with_limit(base64_decoded[1..].iter().cloned(), CALLDATA_LIMIT)","nada::decode_with_limit(base64_decoded[1..].iter().cloned(), CALLDATA_LIMIT * 4)",["C15"]),
 ("M25-gas-wrapping","src/engine/utils.rs","inscription_byte_len.saturating_mul(GAS_PER_BYTE)","inscription_byte_len.wrapping_mul(GAS_PER_BYTE)",["C16"]),
 ("M26-estimate-undershoot","src/server/rpc_server.rs","""        estimated_gas = upper_gas_limit;

        let receipt = self
            .engine
            .read_contract(&tx_info, start_block_height, Some(estimated_gas))
            .await;""","""        estimated_gas = upper_gas_limit;

        let receipt = self
            .engine
            .read_contract(&tx_info, start_block_height, Some(estimated_gas))
            .await;
        let estimated_gas = lower_gas_limit.saturating_sub(GAS_PER_BYTE * 2);""",["C16"]),
 ("M27-sim-nonce-plus1","src/engine/engine.rs","""                tx.nonce = nonce;
                tx.gas_limit = gas_limit.unwrap_or(CONFIG.read().evm_call_gas_limit);""","""                tx.nonce = nonce + 1;
                tx.gas_limit = gas_limit.unwrap_or(CONFIG.read().evm_call_gas_limit);""",["C17"]),
 ("M28-logs-range-7","src/db/brc20_prog_database.rs","if block_number_to - block_number_from > 5 {","if block_number_to - block_number_from > 6 {",["C18"]),
 ("M29-logs-or-as-and","src/db/brc20_prog_database.rs","if !topics.iter().any(|x| {","if !topics.iter().all(|x| {",["C18"]),
 ("M30-timestamp-plus1","src/engine/evm.rs","ctx.block.timestamp = U256::from(timestamp);","ctx.block.timestamp = U256::from(timestamp.wrapping_add(1));",["C19","C02"]),
 ("M31-drained-gets-callers-txid","src/engine/engine.rs","pending_tx_op_return_tx_id.unwrap_or([0u8; 32].into()).bytes,","op_return_tx_id,",["C19"]),
 ("M32-trace-flag-not-validated","src/global/database.rs","""        config_database.validate(
            &*EVM_RECORD_TRACES_KEY,
            &config.evm_record_traces.to_string(),
        )?;""","",["C20"]),
 ("M33-nested-read-again","src/engine/engine.rs","""        let Some(block_number) = self.db.read().get_block_number(block_hash)? else {
            return Ok(None);
        };
        self.get_block_by_number(block_number.into(), is_full)""","""        let guard = self.db.read();
        let Some(block_number) = guard.get_block_number(block_hash)? else {
            return Ok(None);
        };
        self.get_block_by_number(block_number.into(), is_full)""",["C11"]),
 ("M34-history-before-latest-skipped","src/db/cached_database/block_cached_database.rs","""            if cache.is_old(block_number) {
                #[cfg(feature = "verif")]
                crate::verif::failpoint("cached.commit", self.cache_db.path(), "delete", &key_bytes);
                self.cache_db.delete(&key_bytes)?;""","""            if cache.is_old(block_number + 3) {
                #[cfg(feature = "verif")]
                crate::verif::failpoint("cached.commit", self.cache_db.path(), "delete", &key_bytes);
                self.cache_db.delete(&key_bytes)?;""",["C01","C13","C04"]),
 ("M35-signet-prague-gt","src/engine/hardforks.rs","if block_number >= PRAGUE_ACTIVATION_HEIGHT_SIGNET {","if block_number > PRAGUE_ACTIVATION_HEIGHT_SIGNET {",["C19"]),
 ("M36-call-uses-previous-rule-set","src/engine/evm.rs","let evm_spec = get_evm_spec(block_number);","let evm_spec = if timestamp > 1_000_000_000_000 || block_hash != B256::ZERO { get_evm_spec(block_number) } else { get_evm_spec(block_number.saturating_sub(1)) };",["C17"]),
 ("M37-config-compare-trimmed","src/global/database.rs","if db_value != value.to_string() {","if db_value.trim() != value.to_string() {",["C20"]),
 ("M38-auth-batch-first-three","src/server/auth.rs","        for entry in batch.iter_mut() {","        for entry in batch.iter_mut().take(3) {",["C12"]),
 ("M39-auth-batch-stops-after-refusal","src/server/auth.rs","""                        *entry = Err(BatchEntryErr::new(
                            req.id(),
                            ErrorObject::borrowed(401, "Unauthorized", None),
                        ));
                    }""","""                        *entry = Err(BatchEntryErr::new(
                            req.id(),
                            ErrorObject::borrowed(401, "Unauthorized", None),
                        ));
                        break;
                    }""",["C12"]),
 ("M40-tx-index-key-one-byte","src/db/brc20_prog_database.rs","        ((block_number as u128) << 64) | tx_idx as u128","        ((block_number as u128) << 64) | (tx_idx as u8) as u128",["C06","C01","C02"]),
 ("M41-log-index-one-byte","src/engine/engine.rs","                self.last_block_info.read().log_index,\n                inscription_id,","                self.last_block_info.read().log_index & 0xff,\n                inscription_id,",["C06","C18"]),
 ("M42-block-key-two-bytes","src/db/brc20_prog_database.rs","        ((block_number as u128) << 64) | tx_idx as u128","        (((block_number as u16) as u128) << 64) | tx_idx as u128",["C06"]),  # needs TIER=thorough: two transaction-bearing stretches 2^16 blocks apart
]
def sh(cmd, **kw):
    return subprocess.run(cmd, shell=True, capture_output=True, text=True, **kw)
def main():
    want=set(sys.argv[1:])
    res={}
    if os.path.exists('/verif/selftest/results.json'):
        res=json.load(open('/verif/selftest/results.json'))
    assert sh("git -C /repo status --porcelain --untracked-files=no").stdout.strip()=="" , "repo dirty"
    for mid,f,old,new,checks in M:
        if want and mid not in want: continue
        s=open(R+f).read()
        if old not in s:
            print(mid,"PATTERN NOT FOUND"); res[mid]={"error":"pattern not found"}; continue
        open(R+f,'w').write(s.replace(old,new,1))
        try:
            r={}
            for c in checks:
                t=time.time()
                p=sh("cd /verif && VERIF_EVIDENCE=/verif/out/selftest-evidence ./check %s %s"%(c, os.environ.get("TIER","quick")))
                out=p.stdout
                sigs=[l.split('signature=')[-1].rstrip(']') for l in out.splitlines() if 'signature=' in l and 'KNOWN-FINDING' not in l]
                r[c]={"exit":p.returncode,"caught":p.returncode==1 and 'VIOLATION' in out,"signatures":sigs[:4],"secs":round(time.time()-t)}
                print(mid,c,r[c],flush=True)
            res[mid]=r
        finally:
            sh("git -C /repo checkout -- .")
        json.dump(res,open('/verif/selftest/results.json','w'),indent=1)
if __name__=="__main__": main()
