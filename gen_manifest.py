#!/usr/bin/env python3
"""Regenerates MANIFEST.json from the table below (keeps it schema-valid at all times)."""
import json, subprocess, sys
CHECKS = {
 # id: (category, technique, text, note)
 "C01": ("exploration", "differential twin (rolled-back vs fresh replay of the surviving prefix) + acceptance model, Obs comparison (runtime monitoring)",
         "Chains of reorg rounds on generated histories on the real engine; acceptance predicted by a model of the statement (N <= height, N + 10 >= highest block ever finalised); accepted reorgs compared over all identifiers (incl. orphaned) with a fresh instance fed only the surviving history, then both extended identically; refused reorgs must change nothing.",
         "Sampled histories and targets (edge-biased), not all; bugs shared by rolled-back and fresh instance invisible here (C13 has a model)."),
 "C02": ("exploration", "twin processes (different HashMap seeds/dirs, restart after commit) + pinned sha256 digests of a recorded corpus on three networks",
         "Two OS processes replay one recorded call list; transcripts and Obs at every boundary compared byte for byte after key sorting and zeroing mineTimestamp (list order kept). Recorded corpus in golden/<network>.json replayed and its digests compared with the pinned ones (same protocol/db version only).",
         "Golden digests pin today's behaviour of the recorded corpus, not the protocol; twins share deterministic bugs."),
 "C03": ("exploration", "differential twins over commit schedules + Obs comparison at every block boundary (runtime monitoring)",
         "Real engine driven in-process through the JSON-RPC method table; one generated history replayed under never/every/every-k/random commit schedules, all responses and the full read surface (Obs) compared at every boundary; clearCaches/reopen compared with a fresh replay of the last commit and then extended. Held = no difference on the executions of this run.",
         "Obs covers the public read surface only; twins share schedule-independent bugs; sampled histories, not all."),
 "C13": ("exploration", "reference-model monitor: exhaustive BFS on the real history type + random sequences on the real RocksDB-backed tables vs an in-memory model",
         "Real BlockHistoryCacheData/BlockCachedDatabase/BlockDatabase (through hook re-exports) driven against a never-pruned model; BFS over all short operation sequences from six base heights (canonicalised), random long sequences over three key types incl. commit/clear/reopen/rollback and boundary range scans (complete, in key order).",
         "BFS is breadth-bounded (frontier not closed); preconditions of the table API respected; one open known finding (deep rollback after purge)."),
 "C14": ("exploration", "law checking (round trip, self-delimiting, order preservation, JSON idempotence) on generated values of every persisted/served type",
         "Encode/Decode and serde laws evaluated on boundary-biased generated values of all persisted/served types and request types via the real trait impls.",
         "Values restricted to what the module's constructors can produce; sampled."),
 "C06": ("exploration", "invariant monitor over the RPC surface with independently recomputed bloom / merkle root / RLP decoding, at every block boundary",
         "Real engine, random histories incl. reorg+regrowth; all cross-reference equations of the statement recomputed by the harness (own bloom, own sha256 merkle, alloy-rlp) over all heights at every boundary; receipts handed to the indexer are the reference for block contents.",
         "Sampled histories; inscription ids unique per transaction; one open known finding (duplicate hash after an invalid transaction)."),
 "C15": ("exploration", "law checking on the real encoder/decoder (round trip, padding, bound, bombs) + differential twins hex vs base64 submission",
         "Published encoder and server-side decoder called directly on generated payloads around 0 and around 2^20 bytes, hand-packed frames, bombs, unknown prefixes, truncations; twin instances fed hex vs base64 fields compared on responses and Obs.",
         "Sampled payloads; near-limit payloads are few per run (zstd level 22 cost)."),
 "C18": ("exploration", "reference-model monitor: 60-line reference filter over collected receipts vs eth_getLogs, committed / uncommitted / mixed",
         "Generated filters (address x 0-4 topic positions x ranges/spellings) answered by the real engine are compared as lists with a reference filter over the receipts; every filter is asked before commit, after commit and with later uncommitted blocks; too-wide ranges must be refused.",
         "Unspecified corners (empty alternative list, null inside a list, unparsable block tags) only checked for stability; sampled filters."),
 "C19": ("exploration", "expectation monitor: probe contract records the execution context into storage, compared with what the history supplied",
         "Hand-assembled Probe contract executed through inscription, signed and parked-then-drained transactions on three networks (Prague / Cancun), arbitrary timestamps/hashes/txids, reorgs and a >256-block chain; every recorded value compared with the expectation derived from the calls.",
         "Sampled histories; deposits/withdrawals only checked for the sender (their txid is unobservable)."),
 "C07": ("exploration", "reference-model monitor: ledger model from the Solidity source predicts every outcome and every balance/supply; adversarial callers",
         "Real engine with the shipped controller; an ~80-line ledger model (balances, allowances, checked supply) predicts the receipt status of every deposit/withdraw/controller/token call from inscriptions, signed transactions and a forwarder contract, and every balance, token balance, total supply and ticker address after every block; reorgs roll the model back.",
         "Model follows the shipped Solidity source; sampled operation sequences."),
 "C08": ("exploration", "reference-model monitor: pending-pool model from the statement; exhaustive small scope over arrival orders x gap patterns + random runs",
         "Every brc20_transact and finalise on the real engine is compared with a pool model (receipts count/indexes/nonces/sender, txpool_contentFrom, eth_getTransactionCount); all arrival orders of 3 (quick) / 4 (thorough) nonces x gap patterns {0,1,9,10,11} with duplicate/replacement/noise variants, plus random multi-signer runs with reorgs and clearCaches.",
         "Successors of an expired entry are left unspecified (both behaviours admitted); exhaustive only inside the stated small scope."),
 "C05": ("exploration", "differential twin (history with rejected calls vs history without them) + must-reject table, Obs at boundaries and mid-block",
         "Out-of-protocol and malformed brc20_* calls are injected at arbitrary positions (also mid-block) into a generated history on the real engine; a clean twin gets the history minus exactly the calls that errored; remaining responses, Obs (boundary + non-executing part mid-block incl. txpool) and finalisability are compared; every listed protocol violation must be refused.",
         "brc20_transact calls that end up ignored/parked are not judged on tx_idx/timestamp/hash; sampled injections."),
 "C10": ("exploration", "differential twin with/without read bursts + Obs before/after + raw RocksDB contents diff + failpoint write observer",
         "Read bursts (executing reads with state-mutating bytecode, multi-call carry-over, estimate loops, precompile overrides, error path; non-executing reads mid-block) are interleaved into a generated history; a twin gets the history without reads; indexer responses, Obs and, after commit+close, every RocksDB table of both directories are compared; the write observer must see no persistent write while reads are served.",
         "Sampled read mixes; block rows compared with mineTimestamp zeroed."),
 "C16": ("exploration", "arithmetic monitor on receipts + closed estimate loop on the real engine + state-effect comparison for starved transactions",
         "For generated programs and inscription lengths 0..2^64-1: gasUsed <= saturating(12000 x L) on every receipt (inscription, signed, drained); a starved transaction may change only its sender's nonce (state part of Obs before/after); eth_estimateGas + eth_call at a boundary, then the same call executed with L = ceil(estimate/12000) must succeed with the same output.",
         "Programs that swallow inner failures (gas-observing through the 63/64 rule) are excluded from the estimate loop, as the statement excludes gas-inspecting code; sampled programs."),
 "C17": ("exploration", "self-consistency differential: eth_call then the same transaction executed next, compared on status/output/created code/address",
         "On the real engine, in chain states reached by random histories (also after reorgs), eth_call (and eth_callMany sequences) are compared with the transaction(s) executed next from the same sender (inscription and signed), using receipt status, trace output, installed code and nonce-derived addresses.",
         "Time/randomness/gas/txid-reading code excluded as in the statement; output comparison needs traces (regtest/signet workers)."),
 "C12": ("exploration", "complete request matrix against the real HTTP server (start()) with raw headers + authorised effect classification + twin after sweep",
         "Every registered method x {call, notification, batch positions, notification-only batch} x 17 Authorization header variants x {auth on, off}; servers configured with credentials from the whole RFC 7617 alphabet sent over raw HTTP to the real server; deny-listed+unauthorised must yield 401 and an unchanged state digest, everything else must be served; every method is classified by its authorised effect and mutating ones must be on the list; a fixed authorised script after an unauthorised sweep must match a twin server.",
         "Enumerates the finite matrix (exhaustive for the listed header variants / forms); parameter values are one well-formed template per method."),
 "C20": ("exploration", "expected-outcome table over all ordered configuration pairs + tampered/foreign directories, real start() per case",
         "All 256 ordered (creating, reopening) pairs over 8 network strings (incl. the empty name) x trace flag on fresh and populated directories, 40 tamper cases edited directly in the config RocksDB and 7 foreign/fresh directory shapes; start() must succeed iff all four recorded values match; on success Obs over HTTP equals the one before the stop.",
         "Protocol/db version mismatches are simulated by editing the recorded versions."),
 "C09": ("exploration", "structure-aware fuzzing of the real method table with a process-wide panic hook, liveness probes (read + write round) and logical hang witnesses",
         "Every registered method is driven in-process with typed mutations of well-formed templates, random/mutated bytecode, ABI-valid boundary and ABI-invalid precompile inputs (direct, via contract, via overrides, via executed transactions) in five engine states; any panic while serving, any lost liveness (height must rise by exactly one in a write round) and any mine overrun is a violation; watchdog expiry is inconclusive.",
         "Sampled inputs; HTTP framing layer is covered by C12/C20 only; brc20_mine only with small counts."),
 "C04": ("fault_enumeration", "failpoint-driven fault enumeration with real process deaths (_exit before the k-th RocksDB write), reopen, recovery reorg, Obs vs fresh replay",
         "A child process replays a generated history and is killed immediately before the k-th put/delete/flush of a commit / reorg / finalise (or between calls); the parent reopens the directory, runs reorg(N) for durable heights N in the window on copies, and compares Obs with a fresh replay to N and a two-block extension; finalise/between-call crashes must leave exactly the last committed state.",
         "Crash = process death (page cache survives); torn RocksDB writes/fsync loss out of scope; crash points sampled in quick (stride + table boundaries), denser in thorough."),
 "C11": ("exploration", "offline checker over the lock-event log (nesting discipline, lock-order graph) + forced schedules through hook pause points + stress with injected delays",
         "Lock hooks in SharedData report attempt/acquired/released with call sites; every method is run in four engine states and nested acquisitions are classified; each same-lock read-after-read candidate on a lock with RPC writers is exhibited by a forced schedule in a child process (pause at the nested acquisition, queue a writer, release, observe the wait-for cycle); 10 readers + indexer + maintenance threads run under delay injection and any lock attempt outstanding for >10 s is a violation.",
         "Only acquisition patterns the workload produces are judged; interleavings are sampled, not enumerated; TSan/helgrind are not applicable (std futex RwLock, no unsafe)."),
}
NOT_YET = "check not built yet in this session (planned, see DESIGN.md)"
ALL = ["C%02d" % i for i in range(1, 21)]
def main():
    hooks = subprocess.run(["git","-C","/repo","log","--format=%h %s"],capture_output=True,text=True).stdout.splitlines()
    hook_commits = [l.split()[0] for l in hooks if l.split(" ",1)[1].startswith("verif hooks")]
    m = {
      "version": 1,
      "setup_cmd": "./check --build",
      "hooks": {
        "guard": "cargo feature `verif` (off by default)",
        "enable": "harness depends on brc20-prog with features=[\"verif\"] (path dependency on /repo); cargo build --offline --profile verif in /verif/harness",
        "baseline_off_cmd": "cd /repo && cargo nextest run --workspace --no-fail-fast --test-threads 8 --offline || cargo test --workspace --no-fail-fast --offline",
        "source_commits": hook_commits,
        "add_only": True,
      },
      "engines": [{"name": "vh", "path": "harness", "serves_properties": sorted(CHECKS), "kind_free_text": "Rust harness: in-process JSON-RPC driving of the real engine, generators, Obs, reference models, worker subprocesses"}],
      "checks": [],
      "not_applicable": [],
      "notes": "Technique family: runtime monitoring and sanitizers. Every check rebuilds /repo (path dependency, feature verif) and runs the real code; exit 0 held-on-observed, 1 VIOLATION, 2 inconclusive. Known findings: /verif/known_findings.json.",
    }
    for cid in ALL:
        if cid in CHECKS:
            cat, tech, text, note = CHECKS[cid]
            m["checks"].append({
              "property_id": cid,
              "quick_cmd": "./check %s quick" % cid,
              "thorough_cmd": "./check %s thorough" % cid,
              "evidence_file": "evidence/%s.json" % cid,
              "replay_cmd_template": "./check %s --replay {path}" % cid,
              "engine": "vh",
              "level_claimed": {"category": cat, "text": text, "design_ref": "DESIGN.md §3 %s" % cid},
              "level_note": note,
              "technique": tech,
            })
        else:
            m["not_applicable"].append({"property_id": cid, "reason": NOT_YET})
    json.dump(m, open("/verif/MANIFEST.json","w"), indent=1)
    print("checks:", len(m["checks"]), "not claimed:", len(m["not_applicable"]))
if __name__ == "__main__":
    main()
